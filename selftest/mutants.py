#!/venv/bin/python
"""Sensitivity self-test: apply each listed mutant to a scratch copy of /repo
(outside /repo and /verif, removed afterwards), run the property's check against
it (VERIF_REPO), expect a VIOLATION whose replay reproduces exactly.

usage: selftest/mutants.py [PROP ...] [--runs N] [--keep]
"""
import json
import os
import re
import shutil
import subprocess
import sys
import tempfile

VERIF = os.path.dirname(os.path.dirname(os.path.abspath(__file__)))
sys.path.insert(0, VERIF)
from selftest.mutant_list import MUTANTS  # noqa


def run_mutant(prop, name, edits, runs, tier="quick"):
    tmp = tempfile.mkdtemp(prefix="rigmut-")
    try:
        subprocess.check_call(["rsync", "-a", "--exclude", ".git",
                               "--exclude", "__pycache__", "/repo/", tmp + "/"])
        for (path, old, new) in edits:
            fp = os.path.join(tmp, path)
            s = open(fp).read()
            if s.count(old) != 1:
                return "BAD-MUTANT(%d matches)" % s.count(old), None
            open(fp, "w").write(s.replace(old, new))
        env = dict(os.environ, VERIF_REPO=tmp)
        cmd = [os.path.join(VERIF, "check"), prop, "--no-evidence",
               "--tier", tier]
        if runs:
            cmd += ["--runs", str(runs)]
        p = subprocess.run(cmd, env=env, capture_output=True, text=True,
                           timeout=1800)
        m = re.search(r"VIOLATION property=\S+ replay=(\S+)", p.stdout)
        if p.returncode != 1 or not m:
            return "MISSED(exit=%d) %s" % (p.returncode,
                                           p.stdout.strip().splitlines()[-1:]), None
        mon = re.search(r"monitor=(\S+)", p.stdout).group(1)
        rp = m.group(1)
        q = subprocess.run([os.path.join(VERIF, "check"), prop, "--replay",
                            rp], env=env, capture_output=True, text=True,
                           timeout=600)
        ok = "REPRODUCED-EXACTLY" in q.stdout
        ops = len(json.load(open(rp)).get("tape", {}).get("ops", []))
        for path in re.findall(r"VIOLATION property=\S+ replay=(\S+)", p.stdout):
            if os.path.exists(path):
                os.remove(path)
        return ("CAUGHT monitor=%s ops=%d replay=%s"
                % (mon, ops, "exact" if ok else "DIVERGED")), mon
    finally:
        shutil.rmtree(tmp, ignore_errors=True)


def main():
    args = [a for a in sys.argv[1:] if not a.startswith("--")]
    runs = None
    if "--runs" in sys.argv:
        runs = int(sys.argv[sys.argv.index("--runs") + 1])
        args = [a for a in args if a != str(runs)]
    props = args or sorted(MUTANTS)
    bad = 0
    for prop in props:
        for name, edits, opts in MUTANTS.get(prop, []):
            res, _ = run_mutant(prop, name, edits, runs or opts.get("runs"),
                                opts.get("tier", "quick"))
            print("%s %-38s %s" % (prop, name, res))
            sys.stdout.flush()
            if not res.startswith("CAUGHT") or "DIVERGED" in res:
                bad += 1
    return 1 if bad else 0


if __name__ == "__main__":
    sys.exit(main())
