#!/bin/sh
# Multi-seed soak of the quick tier: every check must exit 0 on the unchanged
# tree for every seed.  usage: selftest/soak.sh FIRST LAST [PROP ...]
cd "$(dirname "$0")/.." || exit 2
first=$1; last=$2; shift 2
props="${*:-C01 C02 C03 C06 C07 C08 C09 C10 C13 C14 C17 C18 C20}"
bad=0
for s in $(seq "$first" "$last"); do
  for p in $props; do
    [ -f "engines/$(/venv/bin/python -c "import sys; sys.path.insert(0,'.'); from rigsim.engines_registry import PROPERTY_ENGINE as E; print(E['$p'])").py" ] || continue
    out=$(VERIF_SEED=$s timeout 900 ./check "$p" --no-evidence 2>&1); rc=$?
    if [ $rc -ne 0 ]; then bad=$((bad+1)); echo "SEED $s $p exit=$rc"; echo "$out" | grep -A2 "VIOLATION\|HARNESS" | head -8; fi
  done
  echo "seed $s done (bad so far: $bad)"
done
echo "SOAK bad=$bad"
[ $bad -eq 0 ]
