#!/bin/sh
# Run the repository's pinned baseline (guard off) and compare with BASELINE.json:
# every test in stable_pass must still pass.  Usage: selftest/baseline.sh [junit-out]
OUT="${1:-/tmp/rig-baseline.junit.xml}"
cd /repo || exit 2
env -u RIG_VERIF /venv/bin/python -m pytest -ra -q -p no:cacheprovider --timeout=900 \
  --continue-on-collection-errors --junitxml="$OUT" >/tmp/rig-baseline.log 2>&1
/venv/bin/python - "$OUT" <<'PY'
import json, sys, xml.etree.ElementTree as ET
want = set(json.load(open("/root/.vp/BASELINE.json"))["stable_pass"])
root = ET.parse(sys.argv[1]).getroot()
passed, failed = set(), set()
for tc in root.iter("testcase"):
    name = "%s::%s" % (tc.get("classname"), tc.get("name"))
    bad = any(ch.tag in ("failure", "error", "skipped") for ch in tc)
    (failed if bad else passed).add(name)
missing = sorted(want - passed)
print("baseline stable_pass=%d now passing=%d (all tests passing now: %d, failing/skipped: %d)"
      % (len(want), len(want & passed), len(passed), len(failed)))
for m in missing[:20]:
    print("  NOT PASSING:", m)
sys.exit(1 if missing else 0)
PY
