#!/bin/sh
# Thorough tier of every check with a reduced wall budget (default 300 s per
# property), no evidence written; every one must exit 0 on the unchanged tree.
# usage: selftest/thorough_short.sh [SEED] [BUDGET_S] [PROP ...]
cd "$(dirname "$0")/.." || exit 2
seed=${1:-0}; [ $# -gt 0 ] && shift
budget=${1:-300}; [ $# -gt 0 ] && shift
props="${*:-C06 C07 C13 C10 C14 C09 C18 C20 C01 C03 C02 C08 C17}"
bad=0
for p in $props; do
  start=$(date +%s)
  out=$(VERIF_SEED=$seed timeout 1500 ./check "$p" --tier thorough --budget "$budget" --no-evidence 2>&1); rc=$?
  echo "$p exit=$rc $(( $(date +%s) - start )) s: $(echo "$out" | tail -1 | cut -c1-120)"
  if [ $rc -ne 0 ]; then bad=$((bad+1)); echo "$out" | grep -A3 "VIOLATION\|HARNESS" | head -12; fi
done
echo "THOROUGH bad=$bad"
[ $bad -eq 0 ]
