#!/venv/bin/python
"""Determinism self-test: the same VERIF_SEED must give identical event-log
digests run after run, in fresh interpreters, at different worker counts and
under different PYTHONHASHSEED values.

usage: selftest/determinism.py PROP [--runs N]
"""
import json
import os
import subprocess
import sys
import tempfile

VERIF = os.path.dirname(os.path.dirname(os.path.abspath(__file__)))


def digests(prop, runs, workers, hashseed, seed):
    fd, path = tempfile.mkstemp(prefix="rigdet-", suffix=".json")
    os.close(fd)
    env = dict(os.environ, VERIF_HASHSEED=str(hashseed),
               PYTHONHASHSEED=str(hashseed))
    p = subprocess.run([os.path.join(VERIF, "check"), prop, "--no-evidence",
                        "--runs", str(runs), "--workers", str(workers),
                        "--seed", str(seed), "--digests", path],
                       env=env, capture_output=True, text=True, timeout=3600)
    try:
        d = json.load(open(path))
    except Exception:
        print(p.stdout[-2000:], p.stderr[-2000:])
        raise
    finally:
        os.remove(path)
    return d, p.returncode


def main():
    prop = sys.argv[1]
    runs = 400
    if "--runs" in sys.argv:
        runs = int(sys.argv[sys.argv.index("--runs") + 1])
    configs = [(16, 0), (16, 0), (1, 0), (5, 1), (16, 12345)]
    bad = 0
    for seed in (0, 7):
        base = None
        for workers, hs in configs:
            d, rc = digests(prop, runs if workers > 1 else min(runs, 100),
                            workers, hs, seed)
            if base is None:
                base = d
                continue
            diff = [k for k in d if base.get(k) != d[k]]
            print("%s seed=%d workers=%d PYTHONHASHSEED=%s runs=%d exit=%d "
                  "diverging=%d" % (prop, seed, workers, hs, len(d), rc,
                                    len(diff)))
            if diff:
                print("  first diverging run indices:", diff[:10])
                bad += 1
    print("DETERMINISM %s: %s" % (prop, "FAIL" if bad else "ok"))
    return 1 if bad else 0


if __name__ == "__main__":
    sys.exit(main())
