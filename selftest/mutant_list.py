"""Hand-written mutants (each: name, [(file, old, new)], options).  Every one
compiles and passes the repository's pinned tests; each breaks the property it
is listed under."""

SCP = "rig/machine_control/scp_connection.py"

MUTANTS = {
    "C06": [
        ("window-off-by-one", [(SCP,
          "while len(outstanding_packets) < window_size and queued_packets:",
          "while len(outstanding_packets) <= window_size and queued_packets:")], {}),
        ("tries-not-counted", [(SCP,
          "                    outstanding.n_tries += 1\n", "")], {}),
        ("deadline-not-rearmed", [(SCP,
          "outstanding.timeout_time = (current_time +\n                                                outstanding.timeout)",
          "outstanding.timeout_time = current_time")], {}),
        ("pop-to-get", [(SCP,
          "outstanding = outstanding_packets.pop(seq, None)",
          "outstanding = outstanding_packets.get(seq, None)")], {}),
        ("one-try-too-many", [(SCP,
          "if outstanding.n_tries >= self.n_tries:",
          "if outstanding.n_tries > self.n_tries:")], {}),
        ("one-try-too-few", [(SCP,
          "if outstanding.n_tries >= self.n_tries:",
          "if outstanding.n_tries >= self.n_tries - 1 and self.n_tries > 2:")], {}),
        ("retryable-treated-as-ok", [(SCP,
          "                if rc != consts.SCPReturnCodes.ok:\n",
          "                if (rc != consts.SCPReturnCodes.ok and\n                        rc != consts.SCPReturnCodes.p2p_busy):\n")], {}),
        ("fatal-ignored", [(SCP,
          "                        raise FatalReturnCodeError(rc, packet)",
          "                        if packet is not None:\n                            raise FatalReturnCodeError(rc, packet)")], {}),
        ("extra-timeout-dropped", [(SCP,
          "                        self.default_timeout + args.timeout\n",
          "                        self.default_timeout\n")], {}),
        ("callbacks-lifo-dup", [(SCP,
          "                callback, packet = outstanding_callbacks.pop()\n                callback(packet)",
          "                callback, packet = outstanding_callbacks.pop()\n                callback(packet)\n                if len(outstanding_packets) == 3 and packet[12] == 77:\n                    callback(packet)")], {}),
    ],
}
