"""Shared scaffolding for engines that drive a MachineController against the
simulated machine."""
import warnings

from rigsim.core import SimAbort, Violation
from rigsim.net import SimNetwork, FaultPolicy
from rigsim.seams import Seams, install_net, rig_module
from rigsim.machine import SimMachine
from rigsim.runner import innermost_rig_frame

MC_MODULES = ["rig.machine_control", "rig.machine_control.machine_controller",
              "rig.machine_control.scp_connection",
              "rig.machine_control.packets", "rig.machine_control.consts",
              "rig.machine_control.struct_file", "rig.machine_control.regions",
              "rig.machine_control.boot", "rig.utils.contexts"]

TIMEOUTS = [0.02, 0.05, 0.1, 0.5]
# buffer sizes "a machine may report": the real one (256) plus others of every
# residue mod 4, sizes just below a power of two included
# (44, 108, 236, 492: the receive length, a power of two, changes between
# buffer + 10 and buffer + 26)
BUFFERS = [16, 24, 32, 64, 100, 120, 128, 248, 255, 256, 512, 108, 236, 44, 492]

RELIABLE_FAULTS = ["req_loss", "rep_loss", "rep_delay", "rep_dup",
                   "retryable_rc", "slow_machine", "partition",
                   "transient_busy", "rep_batch", "spurious_wakeup"]


def rigcall(w, allowed, fn, *args, **kwargs):
    """Call into rig.  Returns ("ok", value) or ("exc", exception) for an
    exception of an allowed (documented) type; anything else is a violation
    (monitor E) - unless it was raised by the harness itself."""
    try:
        return "ok", fn(*args, **kwargs)
    except (SimAbort, Violation, KeyboardInterrupt):
        raise
    except allowed as e:
        # a documented error must also be able to say what went wrong
        try:
            str(e)
            repr(e)
        except Exception as e2:
            w.violate("E", "%s raised %s, whose message cannot be formatted "
                      "(%s: %s)" % (getattr(fn, "__name__", fn),
                                    type(e).__name__, type(e2).__name__, e2),
                      kind="unprintable-exception", exc=type(e).__name__)
        return "exc", e
    except Exception as e:
        where = innermost_rig_frame(e)
        if where is None:
            raise
        w.violate("E", "%s raised %s: %s (in %s)"
                  % (getattr(fn, "__name__", fn), type(e).__name__, e, where),
                  kind="unexpected-exception", exc=type(e).__name__,
                  where=where.split(":")[-1])
        return "exc", e


class Ctl(object):
    """World + network + machine + seams + a MachineController."""

    def __init__(self, world, allowed_faults=RELIABLE_FAULTS,
                 fault_free_one_in=4, timeouts=TIMEOUTS, buffers=BUFFERS,
                 fifo_requests=True, n_tries_range=(1, 5)):
        self.w = world
        t = self.tape = world.tape
        self.n_tries = n_tries_range[0] + t.draw(n_tries_range[1] -
                                                 n_tries_range[0] + 1)
        self.timeout = timeouts[t.draw(len(timeouts))]
        self.buffer_size = buffers[t.draw(len(buffers))]
        if buffers is BUFFERS and t.draw(4) == 0:
            # any size a little below a power of two
            self.buffer_size = max(16, (1 << (5 + t.draw(5))) - t.draw(41))
        self.policy = FaultPolicy.draw(t, allowed_faults, self.timeout,
                                       fault_free_one_in,
                                       fifo_requests=fifo_requests)
        self.net = SimNetwork(world, self.policy)
        self.seams = Seams()
        self.machine = None
        self.mc = None

    def build_machine(self, **kw):
        kw.setdefault("buffer_size", self.buffer_size)
        self.machine = SimMachine(self.w, self.net, **kw)
        return self.machine

    def start(self, host="spinn", materialise=False, **mc_kwargs):
        m = self.machine
        m.finish(materialise=materialise)
        root_ip = m.chips[m.root].ip
        self.net.hosts[host] = root_ip
        install_net(self.seams, self.net)
        self.mcmod = rig_module("rig.machine_control.machine_controller")
        self.scp = rig_module("rig.machine_control.scp_connection")
        self.consts = rig_module("rig.machine_control.consts")
        mc_kwargs.setdefault("n_tries", self.n_tries)
        mc_kwargs.setdefault("timeout", self.timeout)
        self.mc = self.mcmod.MachineController(host, **mc_kwargs)
        if self.tape.draw(8) == 0:
            # a connection that has been in use for a long time: its 16-bit
            # sequence numbers are about to wrap
            conn = self.mc.connections[None]
            for _ in range(65536 - self.tape.draw(48)):
                next(conn.seq)
            self.w.probe("seq_about_to_wrap")
        return self.mc

    def settle(self):
        """After a call ended in an SCP error, requests it had just sent may
        still be in flight (a windowed burst raises as soon as *one* command
        runs out of tries): let them land before the model is compared or a
        new snapshot is taken."""
        self.w.sim.drain(0.05)

    def clean(self):
        """No fault is active that could legitimately make an operation fail.
        (Transient-busy-only configurations count as clean when a retry is
        allowed: the busy spell is shorter than one time-out.)"""
        if self.policy.active and self.policy.busy and self.n_tries < 2:
            return False
        # (sleeps that last longer than asked make nothing fail)
        return not (self.policy.active and (
            any(v for k, v in self.policy.rates.items()
                if k != "sleep_overshoot") or self.policy.partitions))

    def heal(self):
        self.net.heal()
        self.w.sim.drain(6 * (self.timeout + 0.3) + 1.0)
        for s in self.net.sockets:
            s.inbox.clear()
            del s.held[:]

    def describe(self):
        return ("n_tries=%d timeout=%g buffer=%d faults=%s"
                % (self.n_tries, self.timeout, self.buffer_size,
                   self.policy.describe()))

    def close(self):
        self.seams.restore()
