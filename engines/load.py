"""C09 - application loading returns only when every requested core is loaded.

Real: load_application, flood_fill_aplx, _send_ffs/_ffcs/_ffd/_ffe,
_get_next_nn_id, send_signal, count_cores_in_state, read_vcpu_struct_field,
regions.compress_flood_fill_regions.
Peer: the flood-fill engine, cores and signal handling of SimMachine; every
chip decides *itself* from the region word whether it is selected, so an error
in regions.py shows up as a core loaded but not requested (or the reverse).
"""
import io

from rigsim.machine import SimMachine, ST_IDLE, ST_WAIT, ST_RUN
from .common import Ctl, rigcall, MC_MODULES, TIMEOUTS

RIG_MODULES = MC_MODULES
COMPONENTS_REAL = [
    "MachineController.load_application/flood_fill_aplx/_send_ffs/_send_ffcs/"
    "_send_ffd/_send_ffe/_get_next_nn_id/send_signal/count_cores_in_state/"
    "read_vcpu_struct_field/read_struct_field",
    "regions.compress_flood_fill_regions / RegionCoreTree", "SCPConnection"]
COMPONENTS_STUB = [
    "UDP network/select/clock/sleep (simulated)", "file system: open() of "
    "the APLX files (in-memory table)",
    "SpiNNaker machine: flood-fill reception per chip (region interpretation, "
    "block assembly, fill id), cores, signals, count (reference model)"]

BUFFERS = [16, 24, 32, 64, 100, 120, 128, 248, 256, 512]


def plan(tier, prop):
    quick = tier == "quick"
    return {
        "runs": 8000 if quick else 300000,
        "budget_s": 50 if quick else 800,
        "chunk": 20 if quick else 100,
        "rule": "each run = one seeded machine (1x1..16x16, thorough: sparse "
                "up to 255x255 addressing), 1-3 load_application calls "
                "(1-4 binaries, arbitrary target maps, wait/use_count/n_tries "
                "drawn, per-attempt per-chip flood-fill misses, SCP faults) "
                "and a healed load; non-trivial = at least one load returned "
                "or raised its documented error; distinct = distinct abstract "
                "event traces",
        "expected_probes": ["direct_flood_fill", "load_of_nothing", "targets_include_busy_cores", "target_dict_reused", "load_args_from_context",
                            "fill_retry", "loading_error", "count_fallback",
                            "use_count_fast_path", "multi_binary",
                            "multi_block", "level_lt_3_region",
                            "preexisting_waiting", "fill_id_wrap",
                            "op_timeout", "ff_miss_start", "ff_miss_block",
                            "ff_miss_end", "full_blocks_plus_scattered",
                            "complete_16x16_block", "max_blocks_binary", "binary_rebuilt_at_same_path"],
        "knob_ranges": {"buffer_size": BUFFERS, "machine": "1x1..16x16 "
                        "(thorough also 64x64/255x255 sparse)",
                        "binaries": "1-4, 4 bytes .. 6 buffers",
                        "n_tries": "0-3", "wait": [True, False],
                        "use_count": [True, False]},
        "assumptions": [
            "use_count=True is documented to assume the targets are all "
            "waiting cores of that application id: with cores left waiting by "
            "an earlier load, a run in which the machine-wide count happens to "
            "equal the number requested although cores were missed is not "
            "judged (the documented limitation); every other outcome is",
            "signals are not lost (documented as unreliable, not claimed)",
            "APLX files are whole words; buffer sizes are multiples of 4; "
            "<= 255 blocks per fill", "core start-up latency < app_start_delay",
            "under injected SCP loss load_application may end in the SCP "
            "TimeoutError; then only 'no core outside the request changed' is "
            "judged"],
    }


def decode_selection(machine, ffcs):
    """Which (x, y, p) of this machine do the (region, mask) pairs select?"""
    sel = set()
    for region, mask in ffcs:
        for (x, y), ch in machine.chips.items():
            if ch.dead:
                continue
            if SimMachine.region_selects(region, x, y):
                for p in range(18):
                    if mask & (1 << p):
                        sel.add((x, y, p))
    return sel


class LoadEngine(object):
    def __init__(self, world, tier):
        self.w = world
        self.t = world.tape
        self.tier = tier
        self.files = {}
        self.prev_fill_id = None
        self.n_fills = 0

    def fake_open(self, path, mode="r", *a, **k):
        if path in self.files:
            return io.BytesIO(self.files[path])
        raise IOError("simulated file system: no such file %r" % (path,))

    def ff_miss(self, chip, kind):
        r = self.miss_rate
        if r <= 0 or not self.c.policy.active:
            return False
        if self.t.chance(r):
            self.w.fault("ff_miss_" + kind)
            self.w.probe("ff_miss_" + kind)
            return True
        return False

    def on_command(self, chip, r, ip):
        """Protocol facts of the loading commands (Appendix A of DESIGN.md):
        they are SC&MP's, i.e. go to core 0 of the chip addressed, and carry
        the forward/retry word that makes the fill spread over the machine."""
        w = self.w
        if r.cmd in (20, 22, 23) and r.dest_cpu != 0:
            w.note_violation("FF", "command %d addressed to core %d: only "
                             "the monitor (core 0) implements it"
                             % (r.cmd, r.dest_cpu), kind="not-to-monitor")
        FR = (0x3f << 8) | 0x18
        if r.cmd == 20:
            sub = (r.arg(0) or 0) >> 24
            want = FR | (1 << 31) if sub == 6 else FR
            if sub in (6, 7, 15) and r.arg(2) != want:
                w.note_violation("FF", "nearest-neighbour packet %d carries "
                                 "forward/retry word %#x, expected %#x"
                                 % (sub, r.arg(2) or 0, want),
                                 kind="forward-retry")
        if r.cmd == 23 and ((r.arg(0) or 0) >> 16) != FR:
            w.note_violation("FF", "flood-fill data packet carries forward/"
                             "retry %#x, expected %#x"
                             % ((r.arg(0) or 0) >> 16, FR),
                             kind="forward-retry")

    # -- fills ---------------------------------------------------------------
    def split_fills(self, log):
        fills = []
        cur = None
        for ev in log:
            if ev[0] == "nn" and ev[1] == 6:
                cur = {"ffs": ev, "ffcs": [], "ffd": [], "ffe": None,
                       "order": []}
                fills.append(cur)
                cur["order"].append("S")
            elif cur is None:
                self.w.violate("FF", "flood-fill packet %r sent before any "
                               "start packet" % (ev[:3],), kind="no-start")
            elif ev[0] == "nn" and ev[1] == 7:
                cur["ffcs"].append((ev[3], ev[2] & 0x3ffff))
                cur["order"].append("C")
            elif ev[0] == "ffd":
                cur["ffd"].append(ev)
                cur["order"].append("D")
            elif ev[0] == "nn" and ev[1] == 15:
                cur["ffe"] = ev
                cur["order"].append("E")
                cur = None
        return fills

    def dedup(self, log):
        """Retransmitted copies of a command (lost reply) are executed again
        by the machine; they are identical and adjacent."""
        out = []
        for ev in log:
            if out and out[-1] == ev:
                continue
            out.append(ev)
        return out

    def check_fill(self, f, binaries, app_id):
        w = self.w
        B = self.c.buffer_size
        ffs = f["ffs"]
        fid = (ffs[2] >> 16) & 0xff
        nblk = (ffs[2] >> 8) & 0xff
        self.n_fills += 1
        if f["ffe"] is None:
            w.violate("FF", "flood fill %d has no end packet" % fid,
                      kind="no-end")
            return None
        if "".join(f["order"]).strip("SE").replace("C", "", ).replace(
                "D", "") or f["order"][0] != "S" or f["order"][-1] != "E":
            w.violate("FF", "flood fill packets out of order: %s"
                      % "".join(f["order"]), kind="order")
        if fid % 2 or not 2 <= fid <= 252:
            w.violate("FF", "fill id %d is not an even number in 2..252"
                      % fid, kind="fill-id")
        if self.prev_fill_id is not None and fid == self.prev_fill_id:
            w.violate("FF", "fill id %d re-used by consecutive fills" % fid,
                      kind="fill-id-reuse")
        if self.prev_fill_id is not None and fid < self.prev_fill_id:
            w.probe("fill_id_wrap")
        self.prev_fill_id = fid
        if (f["ffe"][2] & 0xff) != fid:
            w.violate("FF", "end packet carries fill id %d, start %d"
                      % (f["ffe"][2] & 0xff, fid), kind="end-id")
        if ((f["ffe"][3] >> 24) & 0xff) != app_id:
            w.violate("FF", "end packet carries app id %d, requested %d"
                      % ((f["ffe"][3] >> 24) & 0xff, app_id), kind="end-app")
        # core selections strictly increasing
        keys = [(r, m) for r, m in f["ffcs"]]
        if any(keys[i] >= keys[i + 1] for i in range(len(keys) - 1)):
            w.violate("FF", "core selections not in strictly increasing "
                      "order: %r" % (keys[:6],), kind="ffcs-order")
        for r, m in keys:
            if ((r >> 16) & 3) < 3:
                w.probe("level_lt_3_region")
        # blocks
        if len(f["ffd"]) != nblk:
            w.violate("FF", "start packet announces %d blocks, %d sent"
                      % (nblk, len(f["ffd"])), kind="block-count")
        image = b""
        base = None
        for i, (_k, bid, block, words, addr, data) in enumerate(f["ffd"]):
            if bid != fid:
                w.violate("FF", "data block carries fill id %d, start %d"
                          % (bid, fid), kind="block-id")
            if block != i:
                w.violate("FF", "block %d numbered %d" % (i, block),
                          kind="block-number")
            if len(data) > B:
                w.violate("FF", "block of %d bytes exceeds the %d byte buffer"
                          % (len(data), B), kind="block-size")
            if words * 4 != len(data):
                w.violate("FF", "block %d: size field says %d words, %d bytes "
                          "carried" % (i, words, len(data)),
                          kind="block-words")
            if base is None:
                base = addr
            if addr != base + len(image):
                w.violate("FF", "block %d load address %#x, expected %#x"
                          % (i, addr, base + len(image)), kind="block-address")
            image += data
        if nblk > 1:
            w.probe("multi_block")
        match = [name for name, data in binaries.items() if data == image]
        if not match:
            w.violate("FF", "flood fill %d reassembles to %d bytes that are "
                      "none of the binaries" % (fid, len(image)),
                      kind="reassembly")
            return None
        return match[0], decode_selection(self.m, f["ffcs"])

    # -- one load_application call --------------------------------------
    def op_nothing(self):
        """A load that asks for nothing: an empty map, a binary with no
        chips, a chip with no cores.  It returns normally and no core of the
        machine is touched."""
        t, w, c, m = self.t, self.w, self.c, self.m
        k = t.draw(4)
        name = "/sim/none.aplx"
        self.files[name] = bytes(range(64))
        xy = sorted(xy for xy, ch in m.chips.items() if not ch.dead)[0]
        args = [({},), ({name: {}},), (name, {}), ({name: {xy: set()}},)][k]
        before = {xy_: ch.core_snapshot() for xy_, ch in m.chips.items()}
        w.trace.ev("op", "load-nothing")
        w.ops.append("load_application(%r)" % (args,))
        w.probe("load_of_nothing")
        status, val = rigcall(
            w, (c.scp.TimeoutError, c.mcmod.SpiNNakerLoadingError),
            c.mc.load_application, *args, app_id=40 + k,
            wait=bool(t.draw(2)))
        if status != "ok":
            c.settle()
            if isinstance(val, c.mcmod.SpiNNakerLoadingError) or c.clean():
                w.violate("R", "a load of nothing raised %s"
                          % type(val).__name__, kind="empty-load-failed")
        for xy_, ch in m.chips.items():
            for a_, b_ in zip(before[xy_], ch.core_snapshot()):
                # (a core still starting up from an earlier load reaches its
                # final state by itself)
                if a_ != b_ and not (a_[0] == 4 and a_[1:] == b_[1:] and
                                     b_[0] in (ST_WAIT, ST_RUN)):
                    w.violate("X", "a load of nothing changed cores of chip "
                              "%r" % (xy_,), kind="unrequested-core-changed")
                    break
        w.ops[-1] += " -> %s" % ("ok" if status == "ok" else
                                 type(val).__name__)
        w.ops_completed += 1

    def op_load(self, heal=False):
        t, w, c, m = self.t, self.w, self.c, self.m
        if not heal and t.draw(25) == 0:
            return self.op_nothing()
        B = c.buffer_size
        live = sorted(xy for xy, ch in m.chips.items() if not ch.dead)
        n_bin = 1 + t.draw_small(4, 0.4)
        if n_bin > 1:
            w.probe("multi_binary")
        app_id = [30, 66, 1, 255][t.draw(4)]
        wait = bool(t.draw(2))
        n_tries = t.draw(4)
        delay = [0.1, 0.01, 0.5][t.draw(3)]
        m.app_start_latency = delay * [0.0, 0.5, 0.9][t.draw(3)]
        # idle cores - and, one load in four, also cores on which an earlier
        # application is still running, paused or has finished without being
        # stopped (never cores that are waiting: a core waiting under the
        # same id cannot be told from a freshly loaded one by anybody)
        busy_ok = ()
        if t.draw(4) == 0:
            busy_ok = (ST_RUN, 8, 10, 11)
            for (x, y) in live:
                ch_ = m.chips[(x, y)]
                for p in range(1, len(ch_.cores)):
                    if ch_.cores[p].state == ST_RUN and t.draw(3) == 0:
                        ch_.cores[p].state = [8, 10, 11][t.draw(3)]
                        ch_.sync_vcpu(p)
        free = [(x, y, p) for (x, y) in live
                for p in range(1, len(m.chips[(x, y)].cores))
                if m.chips[(x, y)].cores[p].state == ST_IDLE or
                m.chips[(x, y)].cores[p].state in busy_ok]
        if any(m.chips[(x, y)].cores[p].state != ST_IDLE
               for (x, y, p) in free):
            w.probe("targets_include_busy_cores")
        binaries = {}
        app_map = {}
        want = {}
        used = set()
        for b in range(n_bin):
            size = 4 * (1 + t.draw(6) * (B // 4) + t.draw_small(B // 4, 0.5)
                        - (1 if t.draw(3) == 0 and B > 4 else 0))
            size = max(4, min(size, 200 * B))
            if len(live) <= 16 and t.draw(25) == 0:
                # the largest binary a flood fill can carry: 255 blocks (the
                # count travels in one byte), give or take a word or a block
                size = [255 * B, 255 * B - 4, 254 * B + 4, 254 * B][t.draw(4)]
                w.probe("max_blocks_binary")
            name = "/sim/app%d_%d.aplx" % (self.n_loads, b)
            if t.draw(2):
                # the same path as in an earlier load, rebuilt since (other
                # content, possibly another length)
                name = "/sim/app_%d.aplx" % b
                if name in self.files:
                    w.probe("binary_rebuilt_at_same_path")
            data = bytes(((b * 37 + self.n_loads * 11 + i * 7) ^ (i >> 8))
                         & 0xff for i in range(size))
            if not free:
                break
            style = t.draw(5)
            tg = {}
            if style == 4:
                # a few scattered cores first, then one other core on every
                # chip: the merged full blocks sit beside partial selections
                w.probe("full_blocks_plus_scattered")
                p0 = 1 + t.draw(17)
                for _ in range(1 + t.draw(5)):
                    x, y, p = free[t.draw(len(free))]
                    if (x, y, p) not in used and p != p0:
                        tg.setdefault((x, y), set()).add(p)
                        used.add((x, y, p))
                for (x, y, p) in free:
                    if p == p0 and (x, y, p) not in used:
                        tg.setdefault((x, y), set()).add(p)
                        used.add((x, y, p))
            elif style == 0:          # a few scattered cores
                for _ in range(1 + t.draw(5)):
                    x, y, p = free[t.draw(len(free))]
                    if (x, y, p) not in used:
                        tg.setdefault((x, y), set()).add(p)
                        used.add((x, y, p))
            elif style == 1:        # same core set on a rectangle of chips
                x0, y0 = live[t.draw(len(live))]
                ww, hh = 1 + t.draw(min(8, m.width)), 1 + t.draw(
                    min(8, m.height))
                ps = {1 + t.draw(17) for _ in range(1 + t.draw(3))}
                for (x, y, p) in free:
                    if x0 <= x < x0 + ww and y0 <= y < y0 + hh and p in ps \
                            and (x, y, p) not in used:
                        tg.setdefault((x, y), set()).add(p)
                        used.add((x, y, p))
            elif style == 2:        # one core on every chip (full blocks)
                p0 = 1 + t.draw(17)
                for (x, y, p) in free:
                    if p == p0 and (x, y, p) not in used:
                        tg.setdefault((x, y), set()).add(p)
                        used.add((x, y, p))
            else:                   # many cores on one chip
                x0, y0 = live[t.draw(len(live))]
                for (x, y, p) in free:
                    if (x, y) == (x0, y0) and t.draw(2) and \
                            (x, y, p) not in used:
                        tg.setdefault((x, y), set()).add(p)
                        used.add((x, y, p))
            if not tg:
                continue
            kept = getattr(self, "kept_targets", None)
            if kept is not None and b == 0 and t.draw(3) == 0:
                # the caller edits the very dictionary (and core sets) it
                # passed to an earlier load and passes it again
                w.probe("target_dict_reused")
                for xy in list(kept):
                    if xy not in tg:
                        del kept[xy]
                for xy, ps in tg.items():
                    if xy in kept:
                        kept[xy].clear()
                        kept[xy].update(ps)
                    else:
                        kept[xy] = ps
                tg = kept
            if b == 0:
                self.kept_targets = tg
            self.files[name] = data
            binaries[name] = data
            app_map[name] = tg
            want[name] = {(x, y, p) for (x, y), ps in tg.items() for p in ps}
        if not app_map:
            return
        requested = set().union(*want.values())
        # cores of this app id already waiting (earlier loads)?
        pre_wait = any(c_.state == ST_WAIT and c_.app_id == app_id
                       for ch in m.chips.values() for c_ in ch.cores)
        if pre_wait:
            w.probe("preexisting_waiting")
        # use_count=True is documented to assume that the targets are all the
        # cores of this application waiting; with cores left waiting by an
        # earlier load the count can *coincide* with the number requested
        # although cores were missed (pre-existing == missed).  That
        # coincidence is the documented limitation and is not judged; any
        # other outcome is.
        use_count = bool(t.draw(2))
        self.count_coincidence = False

        def on_count(app, state, n):
            if app != app_id or state != ST_WAIT:
                return
            missing = sum(1 for name, cores in want.items()
                          for (x, y, p) in cores
                          if not (m.chips[(x, y)].cores[p].image ==
                                  binaries[name] and
                                  m.chips[(x, y)].cores[p].state == ST_WAIT
                                  and m.chips[(x, y)].cores[p].app_id ==
                                  app_id))
            if missing and n == len(requested):
                self.count_coincidence = True
                w.probe("count_coincidence_not_judged")
        m.on_count = on_count
        self.miss_rate = 0.0 if (heal or c.clean()) else \
            [0.0, 0.02, 0.1, 0.4][t.draw(4)]
        before = {xy: ch.core_snapshot() for xy, ch in m.chips.items()}
        m.ff_log = []
        m.signals_seen = []
        label = ("load_application(%d binaries, %d cores, app=%d, wait=%r, "
                 "n_tries=%d, use_count=%r, delay=%g, miss=%g)%s"
                 % (len(app_map), len(requested), app_id, wait, n_tries,
                    use_count, delay, self.miss_rate,
                    " HEALED" if heal else ""))
        w.trace.ev("op", "load")
        w.ops.append(label)
        # (a truth value need not be the object True or False)
        wait_given = wait
        if t.draw(4) == 0:
            import numpy
            wait_given = [int(wait), numpy.bool_(wait)][t.draw(2)]
            w.probe("wait_as_other_truth_value")
        kwargs = dict(app_id=app_id, wait=wait_given, n_tries=n_tries,
                      app_start_delay=delay)
        if not use_count or t.draw(2):
            kwargs["use_count"] = use_count
        if len(app_map) == 1 and t.draw(2):
            name = next(iter(app_map))
            args = (name, app_map[name])
        else:
            args = (app_map,)
        # every contextual argument may be given in the call, by an
        # enclosing context block, or - when it has the declared default (66
        # is the application id of the controller's initial context) - not
        # at all
        declared = dict(app_id=66, n_tries=2, wait=False, app_start_delay=0.1)
        ctx_args = {}
        for k in sorted(declared):
            how = t.weighted([4, 1, 1])
            if how == 1:
                ctx_args[k] = kwargs.pop(k)
            elif how == 2 and kwargs[k] == declared[k] and \
                    type(kwargs[k]) is type(declared[k]):
                del kwargs[k]
                w.probe("load_arg_defaulted")
        if ctx_args:
            w.probe("load_args_from_context")
            w.ops[-1] += " [context: %s]" % ", ".join(sorted(ctx_args))

        # one call in ten goes to the public flood-fill method itself (one
        # unreliable fill per binary: no count, no retry, no start signal;
        # `wait` defaults to True there)
        direct = not heal and t.draw(10) == 0
        if direct:
            w.probe("direct_flood_fill")
            w.ops[-1] = "flood_fill_aplx: " + w.ops[-1]
            for k in ("n_tries", "app_start_delay", "use_count"):
                kwargs.pop(k, None)
                ctx_args.pop(k, None)
            if "wait" not in kwargs and "wait" not in ctx_args:
                if wait:
                    w.probe("flood_fill_wait_defaulted")
                else:
                    kwargs["wait"] = False
            m.app_start_latency = 0.0

        def call_load():
            fn = c.mc.flood_fill_aplx if direct else c.mc.load_application
            if not ctx_args:
                return fn(*args, **kwargs)
            with c.mc(**ctx_args):
                return fn(*args, **kwargs)
        status, val = rigcall(
            w, (c.scp.TimeoutError, c.mcmod.SpiNNakerLoadingError),
            call_load)
        self.n_loads += 1
        # a retransmitted copy of the call's last command (the END packet of
        # a bare flood fill, the start signal of a load) may still be on its
        # way when the call returns on the first, late, reply: it belongs to
        # this operation, not to the next one (section 7.1)
        c.settle()
        # -- fills: well-formedness and what each one selected ---------
        fills = self.split_fills(self.dedup(m.ff_log))
        per_binary = {}
        complete = status == "ok" or isinstance(
            val, c.mcmod.SpiNNakerLoadingError)
        for i, f in enumerate(fills):
            if f["ffe"] is None and not complete and i == len(fills) - 1:
                break       # cut short by an SCP time-out
            res = self.check_fill(f, binaries, app_id)
            if res is None:
                continue
            name, sel = res
            per_binary.setdefault(name, []).append(sel)
            if not sel <= want[name]:
                extra = sorted(sel - want[name])[:5]
                w.violate("SEL", "a fill of %s selects cores that were not "
                          "requested for it: %r" % (name, extra),
                          kind="select-extra")
        for name, sels in per_binary.items():
            if len(sels) > n_tries + 1:
                w.violate("B", "%d fills of %s were sent; n_tries=%d"
                          % (len(sels), name, n_tries), kind="too-many-fills")
            if len(sels) > 1:
                w.probe("fill_retry")
            if sels and sels[0] != want[name]:
                w.violate("SEL", "the first fill of %s selects %d cores, %d "
                          "were requested (missing %r)"
                          % (name, len(sels[0]), len(want[name]),
                             sorted(want[name] - sels[0])[:5]),
                          kind="select-first")
            for a, b_ in zip(sels, sels[1:]):
                if not b_ <= a:
                    w.violate("SEL", "a retry fill of %s selects cores the "
                              "previous attempt did not" % name,
                              kind="select-retry-grows")
        # -- state oracle ------------------------------------------------
        def loaded(x, y, p, name, state):
            cr = m.chips[(x, y)].cores[p]
            return (cr.image == binaries[name] and cr.app_id == app_id and
                    cr.state == state)

        def unchanged_outside():
            for xy, ch in m.chips.items():
                now = ch.core_snapshot()
                for p, (a, b_) in enumerate(zip(before[xy], now)):
                    if a != b_ and (xy[0], xy[1], p) not in requested:
                        # the start signal is application-wide: cores of the
                        # same application id left waiting by an earlier load
                        # legitimately start too (same image, same app)
                        if (not wait and a[0] == ST_WAIT and b_[0] == ST_RUN
                                and a[1] == app_id and a[1:] == b_[1:]):
                            continue
                        # a core still starting up from an earlier load
                        # reaches its final state by itself
                        if a[0] == 4 and a[1:] == b_[1:] and \
                                b_[0] in (ST_WAIT, ST_RUN):
                            continue
                        w.violate("X", "core (%d, %d, %d) was not requested "
                                  "but changed from %r to %r"
                                  % (xy[0], xy[1], p, a[:2], b_[:2]),
                                  kind="unrequested-core-changed")
        unchanged_outside()
        m.on_count = None
        if direct:
            for name, sels in per_binary.items():
                if len(sels) != 1 and status == "ok":
                    w.violate("B", "flood_fill_aplx sent %d fills of %s"
                              % (len(sels), name), kind="too-many-fills")
            final = ST_WAIT if wait else ST_RUN
            n_loaded = 0
            for name, cores in want.items():
                for (x, y, p) in sorted(cores):
                    cr = m.chips[(x, y)].cores[p]
                    now = m.chips[(x, y)].core_snapshot()[p]
                    if loaded(x, y, p, name, final):
                        n_loaded += 1
                    elif now != before[(x, y)][p] or (
                            status == "ok" and self.miss_rate == 0 and
                            c.clean()):
                        w.violate("R", "flood_fill_aplx (wait=%r): core (%d, "
                                  "%d, %d) is in state %d, app %d, %s - "
                                  "neither loaded as asked nor left alone"
                                  % (wait, x, y, p, cr.state, cr.app_id,
                                     "right image" if cr.image ==
                                     binaries[name] else "wrong/no image"),
                                  kind="flood-fill-result")
            if status != "ok" and (heal or c.clean()):
                w.violate("L", "flood_fill_aplx raised %s although no SCP "
                          "fault is active" % type(val).__name__,
                          kind="clean-timeout")
            w.ops[-1] += " -> %s (%d of %d cores loaded)" % (
                "ok" if status == "ok" else type(val).__name__, n_loaded,
                len(requested))
            w.ops_completed += 1
            if t.draw(2):
                rigcall(w, (c.scp.TimeoutError,), c.mc.send_signal, "stop",
                        app_id)
            return
        if status == "ok" and use_count and self.count_coincidence:
            w.ops[-1] += " -> ok (count coincidence: not judged)"
            w.ops_completed += 1
            if t.draw(2):
                rigcall(w, (c.scp.TimeoutError,), c.mc.send_signal, "stop",
                        app_id)
            return
        if status == "ok":
            final = ST_WAIT if wait else ST_RUN
            for name, cores in want.items():
                for (x, y, p) in sorted(cores):
                    if not loaded(x, y, p, name, final):
                        cr = m.chips[(x, y)].cores[p]
                        w.violate("R", "load_application returned normally "
                                  "but core (%d, %d, %d) is in state %d, app "
                                  "%d, %s" % (x, y, p, cr.state, cr.app_id,
                                              "right image" if cr.image ==
                                              binaries[name] else
                                              "wrong/no image"),
                                  kind="returned-unloaded")
            if use_count and len(fills) == len(binaries):
                w.probe("use_count_fast_path")
            w.ops[-1] += " -> ok (%d fills)" % len(fills)
        elif isinstance(val, c.mcmod.SpiNNakerLoadingError):
            w.probe("loading_error")
            named = {(x, y, p): name for name, tg in val.app_map.items()
                     for (x, y), ps in tg.items() for p in ps}
            missing = {(x, y, p): name for name, cores in want.items()
                       for (x, y, p) in cores
                       if not loaded(x, y, p, name, ST_WAIT)}
            if named != missing:
                w.violate("R", "SpiNNakerLoadingError names %d cores, %d are "
                          "not loaded (difference %r)"
                          % (len(named), len(missing),
                             sorted(set(named) ^ set(missing))[:5]),
                          kind="error-names")
            if heal or (c.clean() and self.miss_rate == 0):
                w.violate("L", "load failed although nothing was lost",
                          kind="clean-failure")
            for name in want:
                if name in val.app_map and \
                        len(per_binary.get(name, [])) < n_tries + 1 and \
                        len(per_binary.get(name, [])) < 1:
                    w.violate("B", "loading error for %s after no fill"
                              % name, kind="too-few-fills")
            w.ops[-1] += " -> SpiNNakerLoadingError(%d cores, %d fills)" % (
                len(named), len(fills))
        else:
            w.probe("op_timeout")
            if heal or c.clean():
                w.violate("L", "load raised TimeoutError although no SCP "
                          "fault is active", kind="clean-timeout")
            w.ops[-1] += " -> TimeoutError"
        if use_count and status == "ok" and len(fills) > len(binaries):
            w.probe("count_fallback")
        if heal and status == "ok":
            for name, sels in per_binary.items():
                if len(sels) != 1:
                    w.violate("L", "healed load needed %d fills of %s"
                              % (len(sels), name), kind="healed-retry")
        w.ops_completed += 1
        # sometimes clean up so that later loads start from idle cores
        if t.draw(2):
            rigcall(w, (c.scp.TimeoutError,), c.mc.send_signal, "stop",
                    app_id)

    # -- run -------------------------------------------------------------
    def run(self):
        t, w = self.t, self.w
        from .common import RELIABLE_FAULTS
        c = self.c = Ctl(w, allowed_faults=RELIABLE_FAULTS +
                         ["sleep_overshoot"], buffers=BUFFERS,
                         n_tries_range=(2, 5))
        big = self.tier == "thorough" and t.draw(20) == 0
        if big:
            dim = [64, 255][t.draw(2)]
            width = height = dim
        else:
            width = [1, 2, 3, 4, 5, 8, 12, 16][t.draw(8)]
            height = [1, 2, 3, 4, 5, 8, 12, 16][t.draw(8)]
            if t.draw(12) == 0:
                # a complete 16x16 block (or four): level-2 regions merge
                width, height = [(16, 16), (16, 16), (32, 32)][t.draw(3)]
                w.probe("complete_16x16_block")
        n_cores = [18, 18, 17, 6][t.draw(4)]
        m = self.m = SimMachine.__new__(SimMachine)
        if big:
            # sparse: only some 4x4 / 16x16 blocks exist
            from rigsim.machine import Chip
            SimMachine.__init__(m, w, c.net, width=1, height=1,
                                buffer_size=c.buffer_size, n_cores=n_cores)
            m.width, m.height = width, height
            for _ in range(1 + t.draw(4)):
                bs = [4, 16][t.draw(2)]
                bx, by = bs * t.draw(width // bs), bs * t.draw(height // bs)
                for x in range(bx, bx + bs):
                    for y in range(by, by + bs):
                        if (x, y) not in m.chips:
                            m.chips[(x, y)] = Chip(m, x, y, n_cores)
            c.machine = m
        else:
            SimMachine.__init__(m, w, c.net, width=width, height=height,
                                buffer_size=c.buffer_size, n_cores=n_cores)
            c.machine = m
            # a few dead chips
            for _ in range(t.draw_small(4, 0.4)):
                xy = (t.draw(width), t.draw(height))
                if xy != (0, 0):
                    m.chips[xy].dead = True
        m.ff_miss = self.ff_miss
        m.on_command = self.on_command
        self.miss_rate = 0.0
        self.n_loads = 0
        try:
            mc = c.start()
            c.seams.set("rig.machine_control.machine_controller", "open",
                        self.fake_open)
            mc._nn_id = [0, 0, 100, 124, 125, 126][t.draw(6)]
            w.ops.append("config %dx%d%s cores=%d nn_id=%d %s"
                         % (width, height, " sparse" if big else "", n_cores,
                            mc._nn_id, c.describe()))
            n_ops = t.op_count(1, 3)
            for _ in range(n_ops):
                t.next_segment()
                self.op_load()
            c.heal()
            rigcall(w, (c.scp.TimeoutError,), mc.send_signal, "stop", 30)
            t.begin_tail()
            self.op_load(heal=True)
        finally:
            c.close()
        return {"machine": "%dx%d" % (width, height), "fills": self.n_fills}


def run(world, tier, prop):
    return LoadEngine(world, tier).run()
