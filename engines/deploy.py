"""C01 - multicast packets reach exactly the cores of their net's sinks.
C03 - routing trees are loop-free, connected, use only live hardware.

The whole system in one process: a drawn machine (truth = SimMachine) ->
get_system_info over the faulty network (or a Machine built directly from the
truth) -> place -> allocate -> route -> routing_tree_to_tables -> minimise ->
load_routing_tables over the faulty network -> packets executed on the
simulated multicast fabric.  C03 stops after routing and walks every tree on
the truth.
"""
import collections
import copy

from rigsim import fabric
from rigsim.core import Tape
from rigsim.machine import SimMachine, RouterEntry, ST_IDLE, ST_RUN
from rigsim.seams import rig_module
from .common import Ctl, rigcall, MC_MODULES
from . import prgen, prcheck

RIG_MODULES = MC_MODULES + [
    "rig.place_and_route", "rig.place_and_route.place.sa",
    "rig.place_and_route.place.hilbert", "rig.place_and_route.place.rcm",
    "rig.place_and_route.place.breadth_first",
    "rig.place_and_route.place.sequential", "rig.place_and_route.place.rand",
    "rig.place_and_route.place.sa.python_kernel",
    "rig.place_and_route.place.sa.c_kernel",
    "rig.place_and_route.route.ner", "rig.place_and_route.route.utils",
    "rig.place_and_route.allocate.greedy", "rig.place_and_route.constraints",
    "rig.place_and_route.exceptions", "rig.place_and_route.utils",
    "rig.routing_table", "rig.routing_table.remove_default_routes",
    "rig.routing_table.ordered_covering", "rig.geometry", "rig.netlist"]
COMPONENTS_REAL = [
    "place (sa with C and Python kernels, hilbert, rcm, breadth_first, "
    "sequential, rand), allocate (greedy), route (ner), "
    "place_and_route_wrapper, wrapper, build_machine, build_core_constraints, "
    "build_application_map", "routing_tree_to_tables, minimise_tables / "
    "minimise_table, remove_default_routes, ordered_covering, "
    "build_routing_table_target_lengths", "MachineController.get_system_info "
    "/ load_routing_tables", "rig.geometry (shortest paths, concentric "
    "hexagons), rig.place_and_route.route.utils", "SCPConnection"]
COMPONENTS_STUB = ["UDP network/select/clock (simulated)", "SpiNNaker machine "
                   "(probing, router allocation and loading) as reference "
                   "model", "multicast router fabric: first-match lookup, "
                   "default routing, dead links/chips, hop budget"]
PLACERS = ["sa_c", "sa_python", "hilbert", "rcm", "breadth_first",
           "sequential", "rand"]


def plan(tier, prop):
    quick = tier == "quick"
    c03 = prop == "C03"
    return {
        "runs": (18000 if quick else 600000) if not c03 else
                (25000 if quick else 800000),
        "budget_s": 55 if quick else 800,
        "chunk": 50 if quick else 100,
        "chunk_timeout_s": 900,
        "rule": "each run = one drawn machine (size, torus/mesh, dead chips, "
                "dead links in one or both directions, unresponsive chips, "
                "busy cores, per-chip resources, fragmented routers), one "
                "application graph grown net by net (tape operations), one "
                "constraint set and one pipeline configuration (placer x "
                "radius x minimisation methods x target length; probing "
                "over the faulty network or a Machine built from the truth)"
                + ("; every tree is walked on the truth" if c03 else
                   "; one packet per net is executed on the simulated "
                   "fabric") + "; non-trivial = the pipeline reached the "
                "oracle stage with at least one net; distinct = distinct "
                "abstract event traces",
        "expected_probes": (
            ["routed_nets", "dead_link_one_direction", "dead_chip", "torus",
             "mesh", "narrow_torus", "disconnected_machine", "radius_zero",
             "avoid_dead_links_used", "sink_on_source_chip", "memo_prewarmed",
             "endpoint_sink", "rerouted_after_in_place_degradation",
             "endpoint_in_same_chip_group", "broadcast_net",
             "constraint_subclasses", "relay_line"]
            if c03 else
            ["packets_executed", "default_routed_hop", "endpoint_exit",
             "wrapper_new", "wrapper_deprecated", "hand_chain",
             "probed_machine", "direct_machine", "minimise_target_forced",
             "minimisation_failed", "router_error", "placement_error",
             "ordered_covering_used", "remove_default_routes_used",
             "dead_link_one_direction", "zero_core_vertex", "same_chip_group", "earlier_mapping",
             "multi_core_sink", "endpoint_in_same_chip_group",
             "broadcast_net", "cube_structured_keys", "relay_line",
             "constraint_subclasses", "numpy_net_keys"] +
            ["placer_" + p for p in PLACERS]),
        "knob_ranges": {"machine": "1x1..12x12 (thorough ..24x24), 1xN, 2xN",
                        "nets": "0-20", "fan_out": "0-12",
                        "placer": PLACERS, "radius": "0-20",
                        "minimise": "none / remove_default_routes / "
                                    "ordered_covering / both; target None, "
                                    "router free block, forced small, "
                                    "must-fail"},
        "assumptions": [
            "constraint sets are consistent (one location per same-chip "
            "group, reservations inside the chip's range and disjoint)",
            "route-endpoint links are links with no working chip beyond them",
            "a chip that did not answer the probe is treated as dead by "
            "place-and-route and by the fabric",
            "permitted outcomes other than success: the documented "
            "InsufficientResourceError, InvalidConstraintError, "
            "MachineHasDisconnectedSubregion (only when the working chips "
            "are not strongly connected), MinimisationFailedError, "
            "SpiNNakerRouterError, and the SCP TimeoutError under injected "
            "loss", "a routing entry with an empty route absorbs a packet; "
            "accepted only on chips holding a sink that needs no core and has "
            "no endpoint"],
    }


class DeployEngine(object):
    def __init__(self, world, tier, prop):
        self.w = world
        self.t = world.tape
        self.tier = tier
        self.prop = prop
        self.c03 = prop == "C03"

    # ------------------------------------------------------------------
    # truth machine
    # ------------------------------------------------------------------
    def build_truth(self):
        t, w, c = self.t, self.w, self.c
        big = self.tier == "thorough" and t.draw(8) == 0
        shape = t.weighted([6, 2, 2])
        if shape == 0:
            W = 1 + t.draw(24 if big else 12)
            H = 1 + t.draw(24 if big else 12)
        elif shape == 1:
            W, H = 1 + t.draw(2), 1 + t.draw(16)
        else:
            W, H = 1 + t.draw(16), 1 + t.draw(2)
        torus = bool(t.draw(2))
        w.probe("torus" if torus else "mesh")
        if torus and min(W, H) <= 2:
            w.probe("narrow_torus")
        m = self.m = c.build_machine(width=W, height=H, torus=torus)
        heavy = t.draw(4) == 0
        p_dead_chip = [0.0, 0.03, 0.15][t.draw(3)] if not heavy else 0.3
        p_dead_link = [0.0, 0.03, 0.15][t.draw(3)] if not heavy else 0.3
        for xy, ch in sorted(m.chips.items()):
            n = 18 if t.draw(4) else 2 + t.draw(17)
            ch.cores = ch.cores[:n]
            if xy != m.root and t.chance(p_dead_chip):
                ch.dead = True
                w.probe("dead_chip")
                w.fault("dead_chip")
            elif xy != m.root and t.chance(0.02):
                ch.unresponsive = "silent"
                w.fault("unresponsive_chip")
            for p in range(1, n):
                if t.chance(0.06):
                    ch.cores[p].state = ST_RUN
                    ch.cores[p].app_id = 99
            if t.draw(5) == 0:
                ch.sdram.alloc(4 * t.draw(200000), 99, 0)
        for xy, ch in sorted(m.chips.items()):
            for l in range(6):
                if t.chance(p_dead_link):
                    ch.links_up.discard(l)
                    w.fault("dead_link")
                    n = m.neighbour(xy[0], xy[1], l)
                    if n is not None and t.draw(3):
                        n.links_up.discard((l + 3) % 6)
                    else:
                        w.probe("dead_link_one_direction")
        # fragmented routers holding other applications' entries (their keys
        # live in a disjoint part of the key space)
        for xy, ch in sorted(m.chips.items()):
            if t.draw(4) == 0:
                for _ in range(1 + t.draw(3)):
                    cnt = 1 + t.draw([4, 60, 900][t.draw(3)])
                    first = ch.rtr_alloc(cnt, 200)
                    if first:
                        for i in range(first, first + cnt):
                            ch.router[i] = RouterEntry(
                                0xf0000000 | i, 0xffffffff, 1 << (6 + i % 18),
                                200)

    def alive(self, xy):
        ch = self.m.chips.get(xy)
        return ch is not None and not ch.dead and not ch.unresponsive

    def machine_from_truth(self):
        """rig Machine + reservations built directly from the truth."""
        par, cons = self.par, self.cons
        m = self.m
        Links = self.Links
        res = {}
        for xy, ch in m.chips.items():
            if self.alive(xy):
                res[xy] = (len(ch.cores), ch.sdram.largest_free(),
                           ch.sysram.largest_free())
        common = collections.Counter(res.values()).most_common(1)
        base = common[0][0] if common else (18, 1000, 1000)
        exc = {xy: {self.R.Cores: r[0], self.R.SDRAM: r[1], self.R.SRAM: r[2]}
               for xy, r in res.items() if r != base}
        dead_chips = {xy for xy in m.chips if not self.alive(xy)}
        dead_links = set()
        for xy, ch in m.chips.items():
            up = ch.working_links()
            for l in range(6):
                if l not in up:
                    dead_links.add((xy[0], xy[1], Links(l)))
        machine = par.Machine(m.width, m.height,
                              {self.R.Cores: base[0], self.R.SDRAM: base[1],
                               self.R.SRAM: base[2]}, exc, dead_chips,
                              dead_links)
        constraints = [cons.ReserveResourceConstraint(self.R.Cores,
                                                      slice(0, 1))]
        for xy, ch in sorted(m.chips.items()):
            if not self.alive(xy):
                continue
            busy = [p for p, cr in enumerate(ch.cores)
                    if p and cr.state != ST_IDLE]
            for p in busy:
                constraints.append(cons.ReserveResourceConstraint(
                    self.R.Cores, slice(p, p + 1), xy))
        return machine, constraints

    # ------------------------------------------------------------------
    # constraints of the application
    # ------------------------------------------------------------------
    def app_constraints(self, g, mv):
        t, w = self.t, self.w
        cons, Routes = self.cons, self.Routes
        if t.draw(4) == 0:
            # the caller's own subclasses of the constraint classes (carrying
            # data of the caller's, say)
            import types
            w.probe("constraint_subclasses")
            cons = types.SimpleNamespace(**{
                n: type("My" + n, (getattr(self.cons, n),), {"note": "mine"})
                for n in ("LocationConstraint", "RouteEndpointConstraint",
                          "SameChipConstraint", "ReserveResourceConstraint",
                          "AlignResourceConstraint")})
        out = []
        vs = list(g.vertices_resources)
        chips = mv.chips()
        if not vs or not chips:
            return out
        group_of = {}
        # same-chip groups (chained / duplicated members)
        for _ in range(t.draw_small(4, 0.4)):
            # (a group of one, or of none, constrains nothing but is legal)
            k = [1, 2, 2, 3, 4, 0][t.draw_small(6, 0.8)]
            members = [vs[t.draw(len(vs))] for _ in range(k)]
            # (the group as a list, a tuple or a set)
            shape = [list, list, list, tuple, set, frozenset][t.draw(6)]
            out.append(cons.SameChipConstraint(shape(members)))
            g.same_chip.append(members)
            w.probe("same_chip_group")
            gid = None
            for v in members:
                if v in group_of:
                    gid = group_of[v]
            if gid is None:
                gid = len(group_of) + 1000 * len(g.same_chip)
            merged = {group_of.get(v) for v in members} - {None}
            for v, gg in list(group_of.items()):
                if gg in merged:
                    group_of[v] = gid
            for v in members:
                group_of[v] = gid
        located_groups = set()
        line = getattr(g, "corridor", None)
        if line:
            # pin the relay line onto consecutive live chips joined by
            # working links (in both directions), if the machine has such
            def run_of(xy, l):
                out_ = [xy]
                while len(out_) < len(line):
                    x, y = out_[-1]
                    nxt = mv.step(x, y, l)
                    if not mv.link_up(x, y, l) or not mv.has_chip(nxt) or \
                            not mv.link_up(nxt[0], nxt[1], (l + 3) % 6) or \
                            nxt in out_:
                        return None
                    out_.append(nxt)
                return out_
            cands = [r for r in (run_of(xy, l) for xy in chips
                                 for l in range(6)) if r]
            if cands:
                for v, xy in zip(line, cands[t.draw(len(cands))]):
                    if v not in group_of:
                        out.append(cons.LocationConstraint(v, xy))
                        g.located[v] = xy
        for v in vs:
            res = g.vertices_resources[v]
            if res.get(self.R.Cores, 1) == 0 and t.draw(2):
                gid = group_of.get(v)
                if gid is not None and (gid in located_groups or t.draw(2)):
                    continue
                # a chip with a link that leads nowhere
                cands = [(x, y, l) for (x, y) in chips for l in range(6)
                         if not mv.link_up(x, y, l) or
                         not mv.has_chip(mv.step(x, y, l))]
                cands = [c_ for c_ in cands
                         if not self.truth_link_leads_somewhere(*c_)]
                if not cands:
                    continue
                x, y, l = cands[t.draw(len(cands))]
                out.append(cons.LocationConstraint(v, (x, y)))
                out.append(cons.RouteEndpointConstraint(v, Routes(l)))
                g.endpoints[v] = Routes(l)
                g.located[v] = (x, y)
                w.probe("endpoint_sink")
                if gid is not None:
                    # a device kept on one chip with other vertices
                    located_groups.add(gid)
                    w.probe("endpoint_in_same_chip_group")
        # location constraints
        for _ in range(t.draw_small(4, 0.4)):
            v = vs[t.draw(len(vs))]
            if v in g.located:
                continue
            gid = group_of.get(v)
            if gid is not None:
                if gid in located_groups:
                    continue
                located_groups.add(gid)
            xy = chips[t.draw(len(chips))]
            out.append(cons.LocationConstraint(v, xy))
            g.located[v] = xy
        if t.draw(3) == 0:
            out.append(cons.AlignResourceConstraint(self.R.SDRAM, 4))
        return out

    def truth_link_leads_somewhere(self, x, y, l):
        ch = self.m.chips.get((x, y))
        if ch is None or l not in ch.links_up:
            return False
        n = self.m.neighbour(x, y, l)
        return n is not None and not n.dead

    # ------------------------------------------------------------------
    def placer(self):
        t, w = self.t, self.w
        name = PLACERS[t.draw(len(PLACERS))]
        w.probe("placer_" + name)
        kwargs = {}
        if name.startswith("sa"):
            mod = rig_module("rig.place_and_route.place.sa")
            fn = mod.place
            if name == "sa_c":
                kern = rig_module(
                    "rig.place_and_route.place.sa.c_kernel").CKernel
            else:
                kern = rig_module(
                    "rig.place_and_route.place.sa.python_kernel").PythonKernel
            kwargs = {"kernel": kern, "random": prgen.seeded(t),
                      "effort": [0.0, 0.05, 0.2][t.draw(3)]}
        else:
            mod = rig_module("rig.place_and_route.place." + name)
            fn = mod.place
            if name == "rand":
                kwargs = {"random": prgen.seeded(t)}
            elif name == "hilbert":
                kwargs = {"breadth_first": bool(t.draw(2))}
        return name, fn, kwargs

    def violate_stage(self, mon, stage, problems):
        kind, msg = problems[0]
        self.w.violate(mon, "%s: %s" % (stage, msg), kind=kind, stage=stage)

    # ------------------------------------------------------------------
    def run(self):
        t, w = self.t, self.w
        c = self.c = Ctl(w, buffers=[128, 256], n_tries_range=(2, 5),
                         timeouts=[0.05, 0.5])
        par = self.par = rig_module("rig.place_and_route")
        self.cons = rig_module("rig.place_and_route.constraints")
        self.exc = rig_module("rig.place_and_route.exceptions")
        self.rt = rig_module("rig.routing_table")
        self.Routes = self.rt.Routes
        self.Links = rig_module("rig.links").Links
        self.RoutingTree = rig_module(
            "rig.place_and_route.routing_tree").RoutingTree
        parutils = rig_module("rig.place_and_route.utils")
        ner = rig_module("rig.place_and_route.route.ner")
        # resource identifiers: rig's, or the caller's own
        R = self.R = prgen.Resources(par, not self.c03 and t.draw(4) == 0
                                     or self.c03 and t.draw(3) == 0)
        if R.custom:
            w.probe("custom_resource_identifiers")
        # (explicitly naming rig's own identifiers is the same call)
        explicit = R.custom or t.draw(3) == 0
        rk3 = {"core_resource": R.Cores, "sdram_resource": R.SDRAM,
               "sram_resource": R.SRAM} if explicit else {}
        rk2 = {k: v for k, v in rk3.items() if k != "sram_resource"}
        rk1 = {k: v for k, v in rk3.items() if k == "core_resource"}
        self.build_truth()
        m = self.m
        g = prgen.Graph(t)
        # tie-breaks of the router and of geometry come from the tape
        c.seams.set("rig.place_and_route.route.utils", "random",
                    prgen.seeded(t))
        c.seams.set("rig.geometry", "random", prgen.seeded(t))
        probe_it = (not self.c03 and t.draw(3) != 0) or \
            (self.c03 and t.draw(4) == 0)
        try:
            mc = c.start()
            w.ops.append("config %dx%d %s chips=%d dead=%d %s probe=%r"
                         % (m.width, m.height, "torus" if m.torus else "mesh",
                            len(m.chips), sum(1 for ch in m.chips.values()
                                              if ch.dead), c.describe(),
                            probe_it))
            w.trace.ev("machine-%dx%d-%s-%ddead" % (
                m.width, m.height, "torus" if m.torus else "mesh",
                sum(1 for ch in m.chips.values() if ch.dead)))
            n_ops = t.op_count(0, 20)
            for _ in range(n_ops):
                t.next_segment()
                if not g.relay_only:
                    prgen.add_net(t, g, R)
            t.begin_tail()
            if g.relay:
                # a relay line: one source and a few sinks on consecutive
                # chips of a straight line (pinned there once the machine is
                # known), a group of nets to each - so that on the chips in
                # between one group passes straight through while another
                # ends there
                HNet = prgen.net_class()
                line = [prgen.new_vertex(t, g, R, kind=0)
                        for _ in range([3, 3, 4, 5][t.draw(4)])]
                g.corridor = line
                for j in range(1, len(line)):
                    # (about as many nets as one cube has keys)
                    for _ in range(2 if g.cube_sparse else max(
                            1, (1 << g.cube_k) + [0, 0, -1, 1][t.draw(4)])):
                        net = HNet(line[0], [line[j]], 1.0, ident=len(g.nets))
                        g.nets.append(net)
                        g.net_keys[net] = (len(g.nets) << 12, 0xffffffff)
                w.probe("relay_line")
            if g.cube_keys and g.nets:
                prgen.assign_cube_keys(t, g)
                w.probe("cube_structured_keys")
            # a few more unconnected vertices
            for _ in range(t.draw_small(6, 0.5)):
                prgen.new_vertex(t, g, R)
            for v, res in g.vertices_resources.items():
                if res.get(self.R.Cores, 1) == 0:
                    w.probe("zero_core_vertex")
            # -- machine description -------------------------------------
            sys_info = None
            if probe_it:
                w.probe("probed_machine")
                w.trace.ev("op", "probe")
                st, sys_info = rigcall(w, (c.scp.TimeoutError,
                                           c.scp.FatalReturnCodeError),
                                       mc.get_system_info)
                if st == "exc":
                    w.ops.append("get_system_info -> %s"
                                 % type(sys_info).__name__)
                    if c.clean():
                        w.violate("L", "probe failed with no fault active",
                                  kind="clean-failure")
                    return {"stage": "probe-failed"}
                machine = parutils.build_machine(sys_info, **rk3)
                base_cons = parutils.build_core_constraints(sys_info, **rk1)
            else:
                w.probe("direct_machine")
                machine, base_cons = self.machine_from_truth()
            mv = prcheck.MachineView(machine)
            app_cons = self.app_constraints(g, mv)
            constraints = base_cons + app_cons
            # what the caller asked for, kept apart from the objects rig sees
            cons_ref = self.clone_constraints(constraints)
            vr_ref = collections.OrderedDict(
                (v, dict(r)) for v, r in g.vertices_resources.items())
            w.ops.append("graph: %s" % g.describe())
            if not mv.strongly_connected():
                w.probe("disconnected_machine")
            # memo state of the router
            if t.draw(2) and hasattr(ner, "memoized_concentric_hexagons"):
                w.probe("memo_prewarmed")
                for _ in range(1 + t.draw(3)):
                    ner.memoized_concentric_hexagons(t.draw(25))
            if not self.c03 and t.draw(4) == 0:
                self.earlier_mapping(Tape(seed=t.subseed()), g.dense_bits)
            radius = [0, 1, 2, 5, 10, 20][t.draw(6)]
            if g.broadcasts:
                w.probe("broadcast_net")
                if t.draw(2):
                    radius = 1 + t.draw(2)
            if radius == 0:
                w.probe("radius_zero")
            pname, place_fn, place_kwargs = self.placer()
            allowed = (self.exc.InsufficientResourceError,
                       self.exc.InvalidConstraintError,
                       self.exc.MachineHasDisconnectedSubregion,
                       self.rt.MinimisationFailedError,
                       c.mcmod.SpiNNakerRouterError, c.scp.TimeoutError)
            apps = {v: "/sim/app.aplx" for v in g.vertices_resources}
            methods = self.draw_methods()
            style = t.weighted([3, 2, 2]) if not self.c03 else 0
            w.ops.append("pipeline: placer=%s %r radius=%d style=%d methods=%s"
                         % (pname, sorted(k for k in place_kwargs), radius,
                            style, [f.__module__.split(".")[-1]
                                    for f in methods[0]]))
            # what rig is given as keys: the caller's integers, or the
            # elements of a numpy key array (32-bit unsigned scalars)
            rig_keys = g.net_keys
            if t.draw(6) == 0:
                import numpy
                w.probe("numpy_net_keys")
                rig_keys = type(g.net_keys)(
                    (n_, (numpy.uint32(k_), numpy.uint32(m_)))
                    for n_, (k_, m_) in g.net_keys.items())
            tables = None
            if style == 1 and sys_info is not None:
                # the new wrapper does everything from the SystemInfo
                w.probe("wrapper_new")
                st, val = rigcall(
                    w, allowed, par.place_and_route_wrapper,
                    g.vertices_resources, apps, g.nets, rig_keys, sys_info,
                    app_cons, place=place_fn, place_kwargs=place_kwargs,
                    route_kwargs={"radius": radius},
                    minimise_tables_methods=methods[0], **rk3)
                if st == "exc":
                    return self.stage_failed("place_and_route_wrapper", val,
                                             mv)
                placements, allocations, app_map, tables = val
                routes = None
            elif style == 2:
                w.probe("wrapper_deprecated")
                st, val = rigcall(
                    w, allowed, par.wrapper, g.vertices_resources, apps,
                    g.nets, rig_keys, machine, base_cons + app_cons,
                    reserve_monitor=False,
                    place=place_fn, place_kwargs=place_kwargs,
                    route_kwargs={"radius": radius}, **rk2)
                if st == "exc":
                    return self.stage_failed("wrapper", val, mv)
                placements, allocations, app_map, tables = val
                constraints = base_cons + app_cons + [
                    self.cons.AlignResourceConstraint(self.R.SDRAM, 4)]
                cons_ref = cons_ref + [
                    self.cons.AlignResourceConstraint(self.R.SDRAM, 4)]
                routes = None
            else:
                if not self.c03:
                    w.probe("hand_chain")
                st, placements = rigcall(
                    w, allowed, place_fn, g.vertices_resources, g.nets,
                    machine, constraints, **place_kwargs)
                if st == "exc":
                    return self.stage_failed("place", placements, mv)
                probs = prcheck.check_placement(
                    vr_ref, mv, cons_ref, placements,
                    self.cons)
                if probs and not self.c03:
                    self.violate_stage("PL", "place[%s]" % pname, probs)
                if probs:
                    return {"stage": "infeasible-placement"}
                alloc = rig_module("rig.place_and_route.allocate.greedy")
                st, allocations = rigcall(
                    w, allowed, alloc.allocate, g.vertices_resources, g.nets,
                    machine, constraints, placements)
                if st == "exc":
                    return self.stage_failed("allocate", allocations, mv)
                probs = prcheck.check_allocation(
                    vr_ref, mv, cons_ref, placements,
                    allocations, self.cons)
                if probs and not self.c03:
                    self.violate_stage("AL", "allocate", probs)
                if probs:
                    return {"stage": "bad-allocation"}
                st, routes = rigcall(
                    w, allowed, ner.route, g.vertices_resources, g.nets,
                    machine, constraints, placements, allocations, self.R.Cores,
                    radius)
                if st == "exc":
                    return self.stage_failed("route", routes, mv)
                self.check_routes(g, routes, mv, placements, allocations)
                if self.c03 and g.nets and t.draw(3) == 0:
                    # the caller degrades *its* Machine in place (a link used
                    # by the first result dies) and routes again with the same
                    # object
                    hops = []
                    for net in g.nets:
                        nodes, _l = prcheck.walk_tree(self.RoutingTree,
                                                      routes[net])
                        for d, node in nodes:
                            for r, o in node.children:
                                if isinstance(o, self.RoutingTree):
                                    hops.append((node.chip[0], node.chip[1],
                                                 int(r)))
                    if hops:
                        x, y, l = hops[t.draw(len(hops))]
                        machine.dead_links.add((x, y, self.Links(l)))
                        if t.draw(2):
                            nx, ny = mv.step(x, y, l)
                            machine.dead_links.add((nx, ny,
                                                    self.Links((l + 3) % 6)))
                        w.probe("rerouted_after_in_place_degradation")
                        w.ops.append("machine.dead_links.add((%d, %d, %d)); "
                                     "route again" % (x, y, l))
                        mv = prcheck.MachineView(machine)
                        st, routes = rigcall(
                            w, allowed, ner.route, g.vertices_resources,
                            g.nets, machine, constraints, placements,
                            allocations, self.R.Cores, radius)
                        if st == "exc":
                            return self.stage_failed("route", routes, mv)
                        self.check_routes(g, routes, mv, placements,
                                          allocations)
                if self.c03:
                    w.ops_completed += 1
                    return {"stage": "routed", "nets": len(g.nets)}
                given_keys = rig_keys
                if t.draw(4) == 0:
                    # keys listed in another order than the routes
                    w.probe("net_keys_other_order")
                    given_keys = type(g.net_keys)(
                        reversed(list(rig_keys.items())))
                st, tables = rigcall(w, allowed,
                                     self.rt.routing_tree_to_tables, routes,
                                     given_keys)
                if st == "exc":
                    return self.stage_failed("routing_tree_to_tables",
                                             tables, mv)
                tables = dict(tables)
                target = self.draw_target(tables, sys_info)
                st, mt = rigcall(w, allowed, self.rt.minimise_tables, tables,
                                 target, methods[0])
                if st == "exc":
                    if isinstance(mt, self.rt.MinimisationFailedError):
                        w.probe("minimisation_failed")
                        self.check_min_failure(mt, tables, target)
                    return self.stage_failed("minimise_tables", mt, mv)
                for xy, tb in mt.items():
                    if len(tb) > len(tables.get(xy, [])):
                        w.violate("MIN", "minimised table of %r is longer "
                                  "than the original" % (xy,),
                                  kind="min-longer")
                    tl = target.get(xy) if isinstance(target, dict) else \
                        target
                    if tl is not None and len(tb) > tl:
                        w.violate("MIN", "minimised table of %r has %d "
                                  "entries, target %d" % (xy, len(tb), tl),
                                  kind="min-target")
                tables = mt
            # wrapper styles: stage checks on what they returned
            if routes is None:
                probs = prcheck.check_placement(
                    vr_ref, mv, cons_ref, placements,
                    self.cons)
                if probs:
                    self.violate_stage("PL", "place[%s]" % pname, probs)
                probs = prcheck.check_allocation(
                    vr_ref, mv, cons_ref, placements,
                    allocations, self.cons)
                if probs:
                    self.violate_stage("AL", "allocate", probs)
            for v in g.vertices_resources:
                if g.vertices_resources[v].get(self.R.Cores, 0) > 1:
                    w.probe("multi_core_sink")
            # -- load over the faulty network ---------------------------
            w.trace.ev("op", "load")
            tables = dict(tables)
            st, val = rigcall(w, allowed, mc.load_routing_tables, tables, 77)
            loaded = st == "ok"
            if st == "exc":
                c.settle()
                if isinstance(val, c.mcmod.SpiNNakerRouterError):
                    w.probe("router_error")
                    ch = m.chips[val.chip]
                    if ch.rtr_largest_free() >= len(tables[val.chip]) and \
                            c.clean():
                        w.violate("RT", "SpiNNakerRouterError for chip %r "
                                  "although its table fits" % (val.chip,),
                                  kind="spurious-router-error")
                elif c.clean():
                    w.violate("L", "loading raised %s with no fault active"
                              % type(val).__name__, kind="clean-failure")
                # the place-and-route result is still judged: install the
                # tables the way a successful load would have
                for ch in m.chips.values():
                    ch.rtr_free_app(77, clear=True)
                for xy, tb in tables.items():
                    ch = m.chips.get(xy)
                    if ch is None:
                        w.violate("RT", "table for chip %r which does not "
                                  "exist" % (xy,), kind="table-for-no-chip")
                        continue
                    for blk in list(ch.rtr_blocks):
                        ch.rtr_free_app(blk[2], clear=True)
                    first = ch.rtr_alloc(len(tb), 77)
                    for i, e in enumerate(tb):
                        ch.router[first + i] = RouterEntry(
                            e.key, e.mask, sum(1 << int(r) for r in e.route),
                            77)
            w.ops.append("tables on %d chips (%d entries) %s"
                         % (len(tables), sum(len(tb) for tb in tables.values()),
                            "loaded over SCP" if loaded else
                            "installed directly (load failed: %s)"
                            % type(val).__name__))
            self.execute_packets(g, placements, allocations, mv)
            w.ops_completed += 1
            return {"stage": "executed", "nets": len(g.nets),
                    "placer": pname}
        finally:
            c.close()

    # ------------------------------------------------------------------
    def earlier_mapping(self, t2, dense_bits):
        """Another, unrelated application mapped earlier in this process (its
        keys come from the same scheme, its tables are squeezed hard so that
        the minimisers merge): what follows must not care."""
        par, w = self.par, self.w
        w.probe("earlier_mapping")
        g2 = prgen.Graph(t2)
        g2.dense_bits = dense_bits
        for _ in range(2 + t2.draw(10)):
            prgen.add_net(t2, g2, par, max_fanout=5)   # (rig's identifiers)
        m2 = par.Machine(1 + t2.draw(4), 1 + t2.draw(4))
        cons2 = [self.cons.ReserveResourceConstraint(self.par.Cores, slice(0, 1))]
        hil = rig_module("rig.place_and_route.place.hilbert")
        alloc = rig_module("rig.place_and_route.allocate.greedy")
        ner = rig_module("rig.place_and_route.route.ner")
        oc = rig_module("rig.routing_table.ordered_covering")
        try:
            pl = hil.place(g2.vertices_resources, g2.nets, m2, cons2)
            al = alloc.allocate(g2.vertices_resources, g2.nets, m2, cons2, pl)
            ro = ner.route(g2.vertices_resources, g2.nets, m2, cons2, pl, al)
            tb = self.rt.routing_tree_to_tables(ro, g2.net_keys)
            if t2.draw(2):
                self.rt.minimise_tables(tb, [0, 1, 2][t2.draw(3)],
                                        (oc.minimise,))
            else:
                for xy, tab in tb.items():
                    oc.ordered_covering(tab, t2.draw(3), no_raise=True)
        except (self.exc.InsufficientResourceError,
                self.exc.MachineHasDisconnectedSubregion,
                self.rt.MinimisationFailedError,
                self.rt.MultisourceRouteError):
            pass

    @staticmethod
    def clone_constraints(constraints):
        out = []
        for c_ in constraints:
            cc = copy.copy(c_)
            if hasattr(cc, "vertices"):
                cc.vertices = list(c_.vertices)
            out.append(cc)
        return out

    def stage_failed(self, stage, exc, mv):
        w, c = self.w, self.c
        name = type(exc).__name__
        w.ops.append("%s -> %s" % (stage, name))
        w.trace.ev("stage-failed", stage, name)
        w.probe("failed:%s:%s" % (stage, name))
        if isinstance(exc, self.exc.MachineHasDisconnectedSubregion):
            if mv.strongly_connected():
                w.violate("CONN", "%s raised MachineHasDisconnectedSubregion "
                          "but all working chips can reach each other over "
                          "working links" % stage, kind="spurious-disconnected")
        elif isinstance(exc, c.scp.TimeoutError):
            if c.clean():
                w.violate("L", "%s raised TimeoutError with no fault active"
                          % stage, kind="clean-failure")
        elif isinstance(exc, (self.exc.InsufficientResourceError,
                              self.exc.InvalidConstraintError)):
            w.probe("placement_error")
            if stage == "route":
                w.violate("E", "route raised %s" % name,
                          kind="unexpected-exception", exc=name, where=stage)
        return {"stage": stage + "-failed", "error": name}

    def draw_methods(self):
        t, w = self.t, self.w
        rdr = rig_module("rig.routing_table.remove_default_routes").minimise
        oc = rig_module("rig.routing_table.ordered_covering").minimise
        k = t.weighted([3, 1, 1, 1])
        ms = [(rdr, oc), (rdr,), (oc,), ()][k]
        if oc in ms:
            w.probe("ordered_covering_used")
        if rdr in ms:
            w.probe("remove_default_routes_used")
        return ms, k

    def draw_target(self, tables, sys_info):
        t, w = self.t, self.w
        k = t.weighted([2, 3, 2, 1])
        if k == 0:
            return None
        if k == 1:
            return {xy: self.m.chips[xy].rtr_largest_free()
                    if xy in self.m.chips else 1023 for xy in tables}
        if k == 2:
            w.probe("minimise_target_forced")
            # around the table size: exactly equal, one more, a few fewer
            return {xy: max(0, len(tb) + 1 - t.draw(5))
                    for xy, tb in tables.items()}
        return [0, 1, 2][t.draw(3)]

    def check_min_failure(self, e, tables, target):
        w = self.w
        if e.chip is not None and e.chip in tables and \
                e.final_length is not None and \
                e.final_length > len(tables[e.chip]):
            w.violate("MIN", "MinimisationFailedError reports %d entries "
                      "reached; the unminimised table has %d"
                      % (e.final_length, len(tables[e.chip])),
                      kind="min-failure-size")

    def check_routes(self, g, routes, mv, placements, allocations):
        w = self.w
        if set(routes) != set(g.nets):
            w.violate("TREE", "routes returned for %d nets, %d given"
                      % (len(routes), len(g.nets)), kind="route-nets")
        for net in g.nets:
            root = routes[net]
            probs = prcheck.check_tree(self.RoutingTree, net, root, mv,
                                       placements, allocations, g.endpoints,
                                       self.R.Cores)
            if probs:
                kind, msg = probs[0]
                w.violate("TREE", "%r: %s" % (net, msg), kind=kind)
            w.probe("routed_nets")
            nodes, leaves = prcheck.walk_tree(self.RoutingTree, root)
            w.trace.ev("tree-%dn-%dl" % (len(nodes), len(leaves)))
            src = tuple(placements[net.source])
            if any(tuple(placements[s]) == src for s in net.sinks):
                w.probe("sink_on_source_chip")
        if mv.dead_links or mv.dead_chips:
            w.probe("avoid_dead_links_used")

    def execute_packets(self, g, placements, allocations, mv):
        t, w, m = self.t, self.w, self.m
        par = self.par
        # chips that are not part of the Machine are not "working chips"
        shadow_dead = []
        for xy, ch in m.chips.items():
            if not ch.dead and not mv.has_chip(xy):
                ch.dead = True
                shadow_dead.append(ch)
        endpoints = {(placements[v][0], placements[v][1], int(r))
                     for v, r in g.endpoints.items()}
        try:
            for net in g.nets:
                key, mask = g.net_keys[net]
                pk = prgen.packet_key(t, key, mask)
                src = tuple(placements[net.source])
                res = fabric.inject(m, src, pk, endpoints)
                w.probe("packets_executed")
                if res.default_routed:
                    w.probe("default_routed_hop", res.default_routed)
                want_cores = collections.Counter()
                want_exits = collections.Counter()
                silent = set()
                for sink in set(net.sinks):
                    xy = tuple(placements[sink])
                    if sink in g.endpoints:
                        want_exits[(xy[0], xy[1], int(g.endpoints[sink]))] = 1
                        continue
                    sl = allocations.get(sink, {}).get(self.R.Cores)
                    if sl is None or sl.stop == sl.start:
                        silent.add(xy)
                        continue
                    for core in range(sl.start, sl.stop):
                        want_cores[(xy[0], xy[1], core)] = 1
                got_cores = collections.Counter(res.deliveries)
                got_exits = collections.Counter(res.exits)
                where = "%r key %#x from %r" % (net, pk, src)
                if res.exits:
                    w.probe("endpoint_exit")
                if res.circulated:
                    w.violate("FAB", "packet of %s circulates" % where,
                              kind="circulation")
                if res.dead_hops:
                    w.violate("FAB", "packet of %s sent %s" % (
                        where, ", ".join("from (%d,%d) over link %r: %s" % h
                                         for h in res.dead_hops[:3])),
                        kind="dead-hop")
                if res.drops and (want_cores or want_exits):
                    w.violate("FAB", "packet of %s dropped at %r"
                              % (where, res.drops[:3]), kind="dropped")
                # an entry with an empty route on a tree leaf that has
                # nothing to deliver absorbs the packet: harmless (anything it
                # should have delivered shows up as missing below)
                if res.absorbed:
                    w.probe("absorbed_at_leaf")
                if got_cores != want_cores:
                    missing = sorted((want_cores - got_cores).elements())[:4]
                    extra = sorted((got_cores - want_cores).elements())[:4]
                    w.violate("FAB", "packet of %s: cores missed %r, cores "
                              "reached unexpectedly or twice %r"
                              % (where, missing, extra), kind="deliveries",
                              missing=bool(missing), extra=bool(extra))
                if got_exits != want_exits:
                    w.violate("FAB", "packet of %s: endpoint exits %r, "
                              "expected %r" % (where, sorted(got_exits),
                                               sorted(want_exits)),
                              kind="endpoint-exits")
        finally:
            for ch in shadow_dead:
                ch.dead = False


def run(world, tier, prop):
    return DeployEngine(world, tier, prop).run()
