"""C17 - library calls neither modify their arguments nor remember earlier
calls.

A scheduler draws a history of 0-12 library calls with differing arguments,
then a probe call.  (a) Deep structural snapshots of every argument before and
after each call must be equal.  (b) The probe's result must equal the result of
the same probe executed *first* in a pristine interpreter - a fork of a process
that has imported rig and called nothing, i.e. the "restart with only durable
state" of this library.
"""
import collections
import io
import os
import pickle
import random as pyrandom

from rigsim.core import Tape, World, SimAbort, Violation
from rigsim.net import SimNetwork, FaultPolicy
from rigsim.seams import Seams, install_net, rig_module
from rigsim.machine import SimMachine
from rigsim.runner import innermost_rig_frame
from rigsim import wire
from . import prgen, prcheck

ISOLATE = True
RIG_MODULES = [
    "rig.place_and_route", "rig.place_and_route.place.sa",
    "rig.place_and_route.place.hilbert", "rig.place_and_route.place.rcm",
    "rig.place_and_route.place.breadth_first",
    "rig.place_and_route.place.sequential", "rig.place_and_route.place.rand",
    "rig.place_and_route.place.sa.python_kernel",
    "rig.place_and_route.place.sa.c_kernel", "rig.place_and_route.route.ner",
    "rig.place_and_route.allocate.greedy", "rig.place_and_route.constraints",
    "rig.routing_table", "rig.routing_table.remove_default_routes",
    "rig.routing_table.ordered_covering", "rig.bitfield", "rig.geometry",
    "rig.machine_control", "rig.machine_control.machine_controller",
    "rig.machine_control.bmp_controller", "rig.netlist"]
COMPONENTS_REAL = [
    "all seven placers, allocate, route, routing_tree_to_tables, "
    "minimise_tables (remove_default_routes, ordered_covering), wrapper, "
    "place_and_route_wrapper, build_application_map, build_routing_tables, "
    "table_is_subset_of / expand_entries / get_common_xs / intersect, "
    "Machine methods, links_between, longest_dimension_first",
    "BitField", "MachineController / BMPController construction and context "
    "use", "rig.geometry / route.utils module-level random (seeded)"]
COMPONENTS_STUB = ["pristine forked interpreter as the restart reference",
                   "simulated machine for the controller calls",
                   "structural snapshot function"]
KINDS = ["place", "allocate", "route", "tables", "minimise", "wrapper",
         "bitfield", "controller", "covering", "misc", "toolbox", "reuse"]
PLACERS = ["sa_c", "sa_python", "hilbert", "rcm", "breadth_first",
           "sequential", "rand"]


def plan(tier, prop):
    quick = tier == "quick"
    return {
        "runs": 7000 if quick else 400000,
        "budget_s": 55 if quick else 800,
        "chunk": 20 if quick else 100,
        "chunk_timeout_s": 900,
        "rule": "each run = a history of 0-12 library calls with differing "
                "arguments (placers, allocate, route, table generation, "
                "minimisers, wrapper, BitField definitions, controller "
                "construction + context use) followed by a probe call whose "
                "result is compared with the same probe made first in a "
                "pristine forked interpreter; every argument is snapshotted "
                "before/after every call; non-trivial = the probe completed "
                "in both processes; distinct = distinct abstract event traces "
                "(call kinds and outcomes)",
        "expected_probes": ["probe_" + k for k in KINDS] + [
            "default_random_module", "callers_vertex_order",
            "table_list_reused"] +
                           ["history_len_ge_6", "probe_raised_same_error",
                            "argument_snapshots", "workspace_reused"],
        "knob_ranges": {"history": "0-12 calls", "kinds": KINDS,
                        "placers": PLACERS},
        "assumptions": [
            "both sides run under the same PYTHONHASHSEED; vertices and nets "
            "have fixed hashes", "randomised functions get random.Random(s) "
            "where they accept one; the module-level random used by the "
            "router is seeded with the same value on both sides",
            "results are compared after canonicalisation (dict order of "
            "results is not significant)"],
    }


# ---------------------------------------------------------------------------
# canonical forms / snapshots
# ---------------------------------------------------------------------------

def canon(obj, RoutingTree=None, depth=0):
    """Canonical, picklable, order-insensitive-where-appropriate form."""
    if depth > 60:
        return "<deep>"
    if obj is None or isinstance(obj, (bool, int, float, str, bytes)):
        return obj
    if isinstance(obj, prgen.V):
        return ("V", obj.i)
    cls = type(obj).__name__
    if RoutingTree is not None and isinstance(obj, RoutingTree):
        kids = [(None if r is None else int(r), canon(o, RoutingTree,
                                                      depth + 1))
                for r, o in obj.children]
        return ("RT", tuple(obj.chip), tuple(sorted(kids, key=repr)))
    if cls == "HNet":
        return ("Net", obj.ident, canon(obj.source), tuple(canon(s) for s in
                                                          obj.sinks),
                obj.weight)
    if isinstance(obj, slice):
        return ("slice", obj.start, obj.stop, obj.step)
    if isinstance(obj, collections.OrderedDict):
        return ("odict", tuple((canon(k, RoutingTree, depth + 1),
                                canon(v, RoutingTree, depth + 1))
                               for k, v in obj.items()))
    if isinstance(obj, dict):
        return ("dict", tuple(sorted(((canon(k, RoutingTree, depth + 1),
                                       canon(v, RoutingTree, depth + 1))
                                      for k, v in obj.items()), key=repr)))
    if isinstance(obj, (set, frozenset)):
        return ("set", tuple(sorted((canon(x, RoutingTree, depth + 1)
                                     for x in obj), key=repr)))
    if isinstance(obj, tuple) and hasattr(obj, "_fields"):
        return (cls,) + tuple(canon(x, RoutingTree, depth + 1) for x in obj)
    if isinstance(obj, (list, tuple)):
        return (cls, tuple(canon(x, RoutingTree, depth + 1) for x in obj))
    if hasattr(obj, "__int__") and cls in ("Routes", "Links"):
        return (cls, int(obj))
    if cls == "Machine" or any(b.__name__ == "Machine" and
                               b.__module__.startswith("rig.")
                               for b in type(obj).__mro__):
        return ("Machine", obj.width, obj.height,
                canon(obj.chip_resources, RoutingTree, depth + 1),
                canon(obj.chip_resource_exceptions, RoutingTree, depth + 1),
                canon(obj.dead_chips), canon(obj.dead_links))
    if cls in ("LocationConstraint", "SameChipConstraint",
               "ReserveResourceConstraint", "AlignResourceConstraint",
               "RouteEndpointConstraint"):
        return (cls, canon(vars(obj), RoutingTree, depth + 1))
    if cls == "_Sentinel" or "sentinel" in cls.lower() or cls == "object":
        return ("obj", repr(obj))
    if hasattr(obj, "__name__"):
        return ("named", obj.__name__)
    return ("repr", repr(obj))


# ---------------------------------------------------------------------------
# call specifications: everything is rebuilt from (kind, seed)
# ---------------------------------------------------------------------------

class Caller(object):
    """Builds the arguments of a call from its seed and performs it."""

    def __init__(self, world):
        self.w = world
        self.par = rig_module("rig.place_and_route")
        self.cons = rig_module("rig.place_and_route.constraints")
        self.exc = rig_module("rig.place_and_route.exceptions")
        self.rt = rig_module("rig.routing_table")
        self.RoutingTree = rig_module(
            "rig.place_and_route.routing_tree").RoutingTree
        self.Links = rig_module("rig.links").Links
        self.snapshots = 0
        # objects the *caller* owns and passes to several calls
        self.tagsets = [set(["t1"]), set(["t1", "t2"]), set(["t3"])]
        self.tagsets_orig = [set(x) for x in self.tagsets]
        self.workspace = None

    def snap(self, args):
        self.snapshots += 1
        return canon(args, self.RoutingTree)

    # -- problem generation (local tape) -----------------------------------
    def problem(self, t):
        par, cons = self.par, self.cons
        W, H = 1 + t.draw(5), 1 + t.draw(5)
        dead = set()
        for x in range(W):
            for y in range(H):
                if (x, y) != (0, 0) and t.draw(12) == 0:
                    dead.add((x, y))
        dead_links = set()
        for x in range(W):
            for y in range(H):
                for l in range(6):
                    if t.draw(15) == 0:
                        dead_links.add((x, y, self.Links(l)))
        ncores = [3, 5, 18][t.draw(3)]
        # chips that differ from the rest (their own resource dictionaries
        # are objects of the caller's too)
        exc = {}
        if t.draw(3) == 0:
            for _ in range(1 + t.draw(3)):
                xy = (t.draw(W), t.draw(H))
                if xy not in dead:
                    exc[xy] = {par.Cores: 1 + t.draw(ncores),
                               par.SDRAM: [100000, 5000][t.draw(2)],
                               par.SRAM: 1024}
        MachineCls = par.Machine
        if t.draw(5) == 0:
            # the caller's own subclass of Machine
            MachineCls = type("MyMachine", (par.Machine,), {"site": "lab"})
        machine = MachineCls(W, H, collections.OrderedDict(
            [(par.Cores, ncores), (par.SDRAM, 100000),
             (par.SRAM, 1024)]),
            exc, dead, dead_links)
        g = prgen.Graph(t)
        for _ in range(t.draw(8)):
            prgen.add_net(t, g, par, max_fanout=4)
        for _ in range(t.draw(3)):
            prgen.new_vertex(t, g, par)
        constraints = [cons.ReserveResourceConstraint(par.Cores,
                                                      slice(0, 1))]
        chips = [c for c in ((x, y) for x in range(W) for y in range(H))
                 if c not in dead]
        k = t.draw(4)
        if k == 0:
            # nothing reserved anywhere
            constraints = []
        elif k == 1:
            # reserved on one chip only
            constraints = [cons.ReserveResourceConstraint(
                par.Cores, slice(0, 1), chips[t.draw(len(chips))])]
        vs = list(g.vertices_resources)
        if vs and t.draw(2):
            constraints.append(cons.LocationConstraint(
                vs[t.draw(len(vs))], chips[t.draw(len(chips))]))
        if vs and exc and t.draw(2):
            # vertices pinned to a chip that has its own resources - those
            # that need nothing (devices) first
            xy = sorted(exc)[t.draw(len(exc))]
            pinned = {c.vertex for c in constraints
                      if isinstance(c, cons.LocationConstraint)}
            free = [v for v in vs if v not in pinned]
            free.sort(key=lambda v: sum(g.vertices_resources[v].values()))
            for v in free[:1 + t.draw(2)]:
                constraints.append(cons.LocationConstraint(v, xy))
        if t.draw(6) == 0 and len(constraints) > 1:
            # the very same constraint object listed twice
            constraints.append(constraints[-1])
        if len(vs) > 2 and t.draw(3) == 0:
            a, b = vs[t.draw(len(vs))], vs[t.draw(len(vs))]
            if not any(isinstance(c, cons.LocationConstraint) and
                       c.vertex in (a, b) for c in constraints):
                constraints.append(cons.SameChipConstraint([a, b]))
        return machine, g, constraints

    def placer(self, t, forced=None, g=None, machine=None):
        name = PLACERS[t.draw(len(PLACERS))]
        if forced is not None:
            name = forced
        kwargs = {}
        if name == "sequential" and g is not None and t.draw(2):
            # the caller's own orders, as lists it keeps
            order = list(g.vertices_resources)
            for i in range(len(order) - 1, 0, -1):
                j = t.draw(i + 1)
                order[i], order[j] = order[j], order[i]
            kwargs["vertex_order"] = order
            if machine is not None and t.draw(2):
                chips = [(x, y) for x in range(machine.width)
                         for y in range(machine.height)
                         if (x, y) in machine]
                if t.draw(2):
                    chips.reverse()
                kwargs["chip_order"] = chips
            self.w.probe("callers_vertex_order")
        if name.startswith("sa"):
            fn = rig_module("rig.place_and_route.place.sa").place
            kern = rig_module("rig.place_and_route.place.sa.c_kernel"
                              ).CKernel if name == "sa_c" else rig_module(
                "rig.place_and_route.place.sa.python_kernel").PythonKernel
            kwargs = {"kernel": kern, "random": prgen.seeded(t),
                      "effort": [0.0, 0.1][t.draw(2)]}
        else:
            fn = rig_module("rig.place_and_route.place." + name).place
            if name == "rand":
                kwargs = {"random": prgen.seeded(t)}
        if "random" in kwargs and t.draw(3) == 0:
            # the generator left to its documented default, the `random`
            # module - which the caller (seed_globals) seeds before the call
            del kwargs["random"]
            self.w.probe("default_random_module")
        return name, fn, kwargs

    def seed_globals(self, t):
        s = t.subseed()
        pyrandom.seed(s)

    def guarded(self, label, fn, args, kwargs, snap_args):
        """Call fn; check arguments unchanged.  -> canonical result."""
        w = self.w
        before = self.snap(snap_args)
        allowed = (self.exc.InsufficientResourceError,
                   self.exc.InvalidConstraintError,
                   self.exc.MachineHasDisconnectedSubregion,
                   self.rt.MinimisationFailedError,
                   self.rt.MultisourceRouteError, ValueError)
        try:
            res = ("ok", fn(*args, **kwargs))
        except allowed as e:
            res = ("raised", type(e).__name__)
        except (SimAbort, Violation):
            raise
        except Exception as e:
            where = innermost_rig_frame(e)
            if where is None:
                raise
            res = ("raised", type(e).__name__)
            w.violate("E", "%s raised %s: %s (in %s)"
                      % (label, type(e).__name__, str(e)[:100], where),
                      kind="unexpected-exception", exc=type(e).__name__,
                      where=where.split(":")[-1])
        after = self.snap(snap_args)
        if before != after:
            which = "?"
            if isinstance(before, tuple) and isinstance(after, tuple):
                for i, (a, b) in enumerate(zip(before[1], after[1])):
                    if a != b:
                        which = "argument #%d" % i
                        break
            w.violate("MUT", "%s modified %s" % (label, which),
                      kind="argument-mutated", call=label.split("[")[0])
        return res

    # -- the calls -----------------------------------------------------------
    def call(self, kind, seed, placer=None):
        """Perform one call described by (kind, seed[, placer]); -> (label,
        canonical result)."""
        t = Tape(seed=seed)
        par = self.par
        ner = rig_module("rig.place_and_route.route.ner")
        alloc = rig_module("rig.place_and_route.allocate.greedy")
        if kind in ("place", "allocate", "route", "tables", "minimise",
                    "wrapper"):
            machine, g, constraints = self.problem(t)
            pname, pfn, pkw = self.placer(t, placer, g, machine)
            self.seed_globals(t)
            vr, nets = g.vertices_resources, g.nets
            if kind == "wrapper":
                apps = {v: "app" for v in vr}
                label = "wrapper[%s]" % pname
                kw = {"place": pfn, "place_kwargs": pkw}
                if t.draw(2):
                    kw["reserve_monitor"] = bool(t.draw(2))
                    kw["align_sdram"] = bool(t.draw(2))
                    label += "[monitor=%r,align=%r]" % (
                        kw["reserve_monitor"], kw["align_sdram"])
                cons = constraints[1:]
                args = (vr, apps, nets, g.net_keys, machine, cons)
                if len(cons) == 0 and t.draw(2):
                    # constraints left to their default
                    args = args[:5]
                    label += "[no constraints argument]"
                r = self.guarded(
                    label, par.wrapper, args, kw,
                    [vr, apps, nets, g.net_keys, machine, cons])
                return label, self.norm(r)
            label = "place[%s]" % pname
            kw_snap = {k: v for k, v in pkw.items() if k != "random"}
            r = self.guarded(label, pfn, (vr, nets, machine, constraints),
                             pkw, [vr, nets, machine, constraints, kw_snap])
            if kind == "place" or r[0] != "ok":
                return label, self.norm(r)
            placements = r[1]
            if t.draw(3) == 0:
                placements = collections.OrderedDict(
                    sorted(placements.items(), key=lambda kv: prgen.vid(kv[0])))
            label = "allocate"
            r = self.guarded(label, alloc.allocate,
                             (vr, nets, machine, constraints, placements), {},
                             [vr, nets, machine, constraints, placements])
            if kind == "allocate" or r[0] != "ok":
                return label, self.norm(r)
            allocations = r[1]
            radius = [0, 1, 2, 3, 20][t.draw(5)]
            label = "route[r=%d]" % radius
            how = t.weighted([5, 1, 1, 1]) if kind == "route" else 0
            if how == 0:
                r = self.guarded(label, ner.route,
                                 (vr, nets, machine, constraints, placements,
                                  allocations, par.Cores, radius), {},
                                 [vr, nets, machine, constraints, placements,
                                  allocations])
            else:
                # the optional allocations argument left out, empty, or
                # covering only some of the vertices
                some = {} if how == 2 else {
                    v: a for v, a in allocations.items()
                    if prgen.vid(v) % 2}
                label += ["", "[no allocations]", "[allocations={}]",
                          "[partial allocations]"][how]
                args = (vr, nets, machine, constraints, placements)
                if how != 1:
                    args += (some,)
                r = self.guarded(label, ner.route, args, {"radius": radius},
                                 [vr, nets, machine, constraints, placements,
                                  some])
            if kind == "route" or r[0] != "ok":
                return label, self.norm(r)
            routes = r[1]
            label = "routing_tree_to_tables"
            r = self.guarded(label, self.rt.routing_tree_to_tables,
                             (routes, g.net_keys), {}, [routes, g.net_keys])
            if kind == "tables" or r[0] != "ok":
                return label, self.norm(r)
            tables = dict(r[1])
            rdr = rig_module(
                "rig.routing_table.remove_default_routes").minimise
            oc = rig_module("rig.routing_table.ordered_covering").minimise
            methods = [(rdr, oc), (oc,), (rdr,)][t.draw(3)]
            target = [None, 0, 1, 1000][t.draw(4)]
            if t.draw(5) == 0:
                # duplicate entries in a table
                for xy in list(tables)[:1]:
                    dup = list(tables[xy])[:1]
                    if dup and t.draw(2):
                        # an equal entry that is a different object and came
                        # in by another link
                        e = dup[0]
                        dup = [self.rt.RoutingTableEntry(
                            set(e.route), e.key, e.mask,
                            {self.rt.Routes(t.draw(6))})]
                    tables[xy] = list(tables[xy]) + dup
            label = "minimise_tables[%s,target=%r]" % (
                "+".join(m.__module__.split(".")[-1] for m in methods),
                target)
            r = self.guarded(label, self.rt.minimise_tables,
                             (tables, target, methods), {},
                             [tables, target])
            return label, self.norm(r)
        if kind == "bitfield":
            return self.call_bitfield(t)
        if kind == "covering":
            return self.call_covering(t)
        if kind == "misc":
            return self.call_misc(t)
        if kind == "toolbox":
            return self.call_toolbox(t)
        if kind == "reuse":
            return self.call_reuse(t)
        return self.call_controller(t)

    def norm(self, r):
        return canon(r, self.RoutingTree)

    def call_misc(self, t):
        """Smaller library entry points: geometry (module-level random
        seeded), machine description utilities, flood-fill regions, struct
        files, Machine defaults."""
        par = self.par
        which = t.draw(6)
        if which == 0:
            geo = rig_module("rig.geometry")
            self.seed_globals(t)
            W, H = 1 + t.draw(12), 1 + t.draw(12)
            a = (t.draw(W), t.draw(H), 0)
            b = (t.draw(W), t.draw(H), 0)
            out = [geo.shortest_torus_path(a, b, W, H),
                   geo.shortest_torus_path_length(a, b, W, H),
                   geo.shortest_mesh_path(a, b),
                   list(geo.concentric_hexagons(t.draw(4), (a[0], a[1])))]
            ner_ = rig_module("rig.place_and_route.route.ner")
            if hasattr(ner_, "memoized_concentric_hexagons"):
                # (the router's memoised variant, for a radius or two)
                out += [tuple(ner_.memoized_concentric_hexagons(t.draw(7)))
                        for _ in range(1 + t.draw(2))]
            return "geometry", canon(out)
        if which == 1:
            mcmod = rig_module("rig.machine_control.machine_controller")
            parutils = rig_module("rig.place_and_route.utils")
            rtutils = rig_module("rig.routing_table.utils")
            consts = rig_module("rig.machine_control.consts")
            W, H = 1 + t.draw(4), 1 + t.draw(4)
            si = mcmod.SystemInfo(W, H)
            for x in range(W):
                for y in range(H):
                    if t.draw(6) == 0:
                        continue
                    n = 1 + t.draw(18)
                    states = [consts.AppState.run] + [
                        consts.AppState.idle if t.draw(4) else
                        consts.AppState.run for _ in range(n - 1)]
                    links = {l for l in self.Links if t.draw(5)}
                    si[(x, y)] = mcmod.ChipInfo(
                        num_cores=n, core_states=states, working_links=links,
                        largest_free_sdram_block=1000 * t.draw(100),
                        largest_free_sram_block=t.draw(2000),
                        largest_free_rtr_mc_block=t.draw(1024))
            snap = [dict(si), si.width, si.height]
            before = self.snap(snap)
            m = parutils.build_machine(si)
            cons = parutils.build_core_constraints(si)
            tl = rtutils.build_routing_table_target_lengths(si)
            if self.snap(snap) != before:
                self.w.violate("MUT", "build_machine / build_core_constraints "
                               "modified the SystemInfo",
                               kind="argument-mutated", call="utils")
            return "utils", canon([m, cons, tl], self.RoutingTree)
        if which == 2:
            regions = rig_module("rig.machine_control.regions")
            targets = {}
            for _ in range(1 + t.draw(40)):
                xy = (t.draw([4, 16, 64][t.draw(3)]), t.draw(16))
                targets.setdefault(xy, set()).add(1 + t.draw(17))
            before = self.snap([targets])
            out = list(regions.compress_flood_fill_regions(targets))
            if self.snap([targets]) != before:
                self.w.violate("MUT", "compress_flood_fill_regions modified "
                               "its targets", kind="argument-mutated",
                               call="regions")
            return "regions", canon(out)
        if which == 3:
            sf = rig_module("rig.machine_control.struct_file")
            import pkg_resources
            data = pkg_resources.resource_string("rig", "boot/sark.struct")
            a = sf.read_struct_file(data)
            # the caller customises *its* copy ...
            a[b"sv"].update_default_values(hw_ver=1 + t.draw(5),
                                           led0=t.draw(1 << 16))
            # ... a second parse must not see that
            b_ = sf.read_struct_file(data)
            return "struct_file", canon([Caller.structs_canon(b_),
                                         b_[b"sv"].pack()])
        if which == 4:
            m1 = par.Machine(2 + t.draw(3), 2)
            m1.chip_resources[par.Cores] = t.draw(5)
            m1.dead_chips.add((0, 1))
            m1[(1, 1)] = {par.Cores: 1, par.SDRAM: 2, par.SRAM: 3}
            m2 = par.Machine(3, 3)
            cp = m1.copy()
            cp.dead_links.add((0, 0, self.Links.north))
            return "machine_defaults", canon([m2, m1, cp], self.RoutingTree)
        rt = self.rt
        e1 = rt.RoutingTableEntry({rt.Routes.north}, t.draw(100), 0xffffffff)
        e1.sources.add(rt.Routes.south)
        e2 = rt.RoutingTableEntry({rt.Routes.east}, 1, 0xffffffff)
        netmod = rig_module("rig.netlist")
        sinks = [prgen.V(1), prgen.V(2)]
        n1 = netmod.Net(prgen.V(0), sinks)
        n1.sinks.append(prgen.V(3))
        return "entries_nets", canon([e2, len(sinks), [repr(x) for x in
                                                        n1.sinks]])

    def system_info(self, t, W, H):
        mcmod = rig_module("rig.machine_control.machine_controller")
        consts = rig_module("rig.machine_control.consts")
        si = mcmod.SystemInfo(W, H)
        for x in range(W):
            for y in range(H):
                if (x, y) != (0, 0) and t.draw(8) == 0:
                    continue
                n = 2 + t.draw(17)
                states = [consts.AppState.run] + [
                    consts.AppState.idle if t.draw(6) else
                    consts.AppState.run for _ in range(n - 1)]
                links = {l for l in self.Links if t.draw(8)}
                si[(x, y)] = mcmod.ChipInfo(
                    num_cores=n, core_states=states, working_links=links,
                    largest_free_sdram_block=100000 + 1000 * t.draw(100),
                    largest_free_sram_block=1024 + t.draw(2000),
                    largest_free_rtr_mc_block=[1024, 3, 0][t.draw_small(3)])
        return si

    def dense_table(self, t, bits, n):
        rt = self.rt
        keys = list(range(1 << bits))
        prgen.seeded(t).shuffle(keys)
        routes = [{rt.Routes(t.draw(6))}, {rt.Routes(6 + t.draw(4))},
                  {rt.Routes(t.draw(6)), rt.Routes(8)}]
        table = []
        for k in keys[:n]:
            src = [{None}, {rt.Routes(t.draw(6))}, set(),
                   {rt.Routes(t.draw(6)), None}][t.draw_small(4, 0.6)]
            mask = ((1 << bits) - 1) & ~t.draw_small(1 << bits, 0.5)
            table.append(rt.RoutingTableEntry(
                set(routes[t.draw(3)]), k & mask, mask | 0xffffff00, src))
        table.sort(key=lambda e: bin(e.mask).count("1"), reverse=True)
        return table

    def call_toolbox(self, t):
        """The rest of the public place-and-route / routing-table API: the
        system-info based wrapper, application map and (deprecated) table
        builders, table utilities, Machine methods and the router's helper
        functions."""
        par, rt = self.par, self.rt
        which = t.draw(5)
        if which == 0:
            machine, g, constraints = self.problem(t)
            si = self.system_info(t, machine.width, machine.height)
            pname, pfn, pkw = self.placer(t, None, g, machine)
            self.seed_globals(t)
            vr, nets = g.vertices_resources, g.nets
            apps = {v: ["a.aplx", "b.aplx"][prgen.vid(v) % 2] for v in vr}
            cons = constraints[1:]
            silist = [dict(si), si.width, si.height]
            label = "place_and_route_wrapper[%s]" % pname
            r = self.guarded(
                label, par.place_and_route_wrapper,
                (vr, apps, nets, g.net_keys, si, cons),
                {"place": pfn, "place_kwargs": pkw},
                [vr, apps, nets, g.net_keys, silist, cons,
                 {k: v for k, v in pkw.items() if k != "random"}])
            return label, self.norm(r)
        if which == 1:
            utils = rig_module("rig.routing_table.utils")
            bits = 3 + t.draw(3)
            a = self.dense_table(t, bits, 1 + t.draw(8))
            b = self.dense_table(t, bits, 1 + t.draw(8))
            if t.draw(2):
                b = list(a) + b
            ignore = [None, 0, 1, 0xff][t.draw(4)]
            out = []
            for label, fn, args in (
                    ("table_is_subset_of", utils.table_is_subset_of, (a, b)),
                    ("expand_entries", lambda x, i: list(
                        utils.expand_entries(x, i)), (a, ignore)),
                    ("get_common_xs", utils.get_common_xs, (a,)),
                    ("intersect", utils.intersect,
                     (a[0].key, a[0].mask, b[0].key, b[0].mask))):
                out.append(self.guarded(label, fn, args, {}, [a, b]))
            return "table_utils", self.norm(out)
        if which == 2:
            rutils = rig_module("rig.place_and_route.route.utils")
            machine, g, constraints = self.problem(t)
            self.seed_globals(t)
            W, H = machine.width, machine.height
            pairs = [((t.draw(W), t.draw(H)), (t.draw(W), t.draw(H)))
                     for _ in range(4)]
            out = [sorted(machine), sorted(
                (x, y, int(l)) for x, y, l in machine.iter_links()),
                machine.has_wrap_around_links(),
                machine.has_wrap_around_links(0.1),
                [(c in machine, (c[0], c[1], self.Links(2)) in machine)
                 for c, _ in pairs]]
            cp = machine.copy()
            out.append(cp == machine and not (cp != machine))
            out.append([self.guarded("links_between", rutils.links_between,
                                     (a, b, machine), {}, [machine])
                        for a, b in pairs])
            # the caller edits its machine between two calls
            for a, b in pairs[:2]:
                for l in self.Links:
                    if t.draw(2):
                        machine.dead_links.add((a[0], a[1], l))
            machine.dead_chips.add(pairs[3][1])
            out.append([self.guarded("links_between", rutils.links_between,
                                     (a, b, machine), {}, [machine])
                        for a, b in pairs])
            out.append([cp.issubset(machine), machine.issubset(cp),
                        sorted(cp) == sorted(machine)])
            vec = (t.draw(9) - 4, t.draw(9) - 4, t.draw(3) - 1)
            out.append(self.guarded(
                "longest_dimension_first",
                lambda *a: list(rutils.longest_dimension_first(*a)),
                (vec, pairs[0][0], W, H), {}, [vec]))
            return "machine_api", self.norm(out)
        # hand-chained flow ending in the application map and the deprecated
        # table builder
        machine, g, constraints = self.problem(t)
        pname, pfn, pkw = self.placer(t, None, g, machine)
        self.seed_globals(t)
        vr, nets = g.vertices_resources, g.nets
        ner = rig_module("rig.place_and_route.route.ner")
        alloc = rig_module("rig.place_and_route.allocate.greedy")
        putils = rig_module("rig.place_and_route.utils")
        r = self.guarded("place[%s]" % pname, pfn,
                         (vr, nets, machine, constraints), pkw,
                         [vr, nets, machine, constraints])
        if r[0] != "ok":
            return "toolbox-chain", self.norm(r)
        placements = r[1]
        r = self.guarded("allocate", alloc.allocate,
                         (vr, nets, machine, constraints, placements), {},
                         [vr, nets, machine, constraints, placements])
        if r[0] != "ok":
            return "toolbox-chain", self.norm(r)
        allocations = r[1]
        apps = {v: ["a.aplx", "b.aplx", "c.aplx"][prgen.vid(v) % 3] for v in vr}
        out = [self.guarded("build_application_map",
                            putils.build_application_map,
                            (apps, placements, allocations), {},
                            [apps, placements, allocations])]
        r = self.guarded("route", ner.route,
                         (vr, nets, machine, constraints, placements,
                          allocations), {},
                         [vr, nets, machine, constraints, placements,
                          allocations])
        if r[0] == "ok":
            routes = r[1]
            omit = bool(t.draw(2))
            out.append(self.guarded(
                "build_routing_tables[omit=%r]" % omit,
                putils.build_routing_tables, (routes, g.net_keys, omit), {},
                [routes, g.net_keys]))
            if which == 4:
                si = self.system_info(t, machine.width, machine.height)
                tl = rig_module("rig.routing_table.utils"
                                ).build_routing_table_target_lengths(si)
                r2 = self.guarded("routing_tree_to_tables",
                                  rt.routing_tree_to_tables,
                                  (routes, g.net_keys), {},
                                  [routes, g.net_keys])
                if r2[0] == "ok":
                    tables = r2[1]
                    tl = {c: tl.get(c, 1024) for c in tables}
                    out.append(self.guarded(
                        "minimise_tables[target=dict]", rt.minimise_tables,
                        (tables, tl), {}, [tables, tl]))
        return "toolbox-chain", self.norm(out)

    def call_reuse(self, t):
        """The caller keeps ONE set of objects (machine, vertices_resources,
        nets, constraints, net_keys) for the whole process and edits them in
        place into this call's problem before each call.  In a pristine
        interpreter the same values sit in objects rig has never seen."""
        par = self.par
        machine, g, constraints = self.problem(t)
        if self.workspace is None:
            self.workspace = (par.Machine(1, 1), collections.OrderedDict(),
                              [], [], collections.OrderedDict())
        else:
            self.w.probe("workspace_reused")
        wm, wvr, wnets, wcons, wkeys = self.workspace
        wm.width, wm.height = machine.width, machine.height
        for mine, new in ((wm.chip_resources, machine.chip_resources),
                          (wm.chip_resource_exceptions,
                           machine.chip_resource_exceptions),
                          (wvr, g.vertices_resources), (wkeys, g.net_keys)):
            mine.clear()
            mine.update(new)
        for mine, new in ((wm.dead_chips, machine.dead_chips),
                          (wm.dead_links, machine.dead_links)):
            mine.clear()
            mine.update(new)
        wnets[:] = g.nets
        wcons[:] = constraints
        pname, pfn, pkw = self.placer(t, None, g, machine)
        self.seed_globals(t)
        ner = rig_module("rig.place_and_route.route.ner")
        alloc = rig_module("rig.place_and_route.allocate.greedy")
        out = []
        r = self.guarded("place[%s]" % pname, pfn, (wvr, wnets, wm, wcons),
                         pkw, [wvr, wnets, wm, wcons])
        out.append(r)
        if r[0] == "ok":
            placements = r[1]
            r = self.guarded("allocate", alloc.allocate,
                             (wvr, wnets, wm, wcons, placements), {},
                             [wvr, wnets, wm, wcons, placements])
            out.append(r)
        if r[0] == "ok" and t.draw(2):
            allocations = r[1]
            r = self.guarded("route", ner.route,
                             (wvr, wnets, wm, wcons, placements, allocations),
                             {}, [wvr, wnets, wm, wcons, placements,
                                  allocations])
            out.append(r)
            if r[0] == "ok":
                out.append(self.guarded(
                    "routing_tree_to_tables", self.rt.routing_tree_to_tables,
                    (r[1], wkeys), {}, [r[1], wkeys]))
        return "reuse[%s]" % pname, self.norm(out)

    def call_covering(self, t):
        """Minimisers on small dense tables (few key bits, few routes), where
        merges - and therefore alias records - are plentiful."""
        rt = self.rt
        oc = rig_module("rig.routing_table.ordered_covering")
        rdr = rig_module("rig.routing_table.remove_default_routes")
        bits = 3 + t.draw(3)
        n = 2 + t.draw(min(12, (1 << bits) - 1))
        keys = list(range(1 << bits))
        prgen.seeded(t).shuffle(keys)
        routes = [{rt.Routes(t.draw(6))}, {rt.Routes(6 + t.draw(4))},
                  {rt.Routes(t.draw(6)), rt.Routes(8)}]
        kept = getattr(self, "kept_table", None)
        # (a few common sizes, so that successive tables are often as long as
        # each other; what is drawn never depends on earlier calls)
        n = min([n, n, 6, 8][t.draw(4)], (1 << bits) - 1)
        table = []
        mixed = t.draw(3) == 0
        if mixed:
            # orthogonal entries of mixed generality: the regions of a
            # prefix-free split of the key space
            regions = [(0, 0)]
            while len(regions) < n:
                cands = [r for r in regions if r[1] < bits]
                if not cands:
                    break
                pre, plen = cands[t.draw(len(cands))]
                regions.remove((pre, plen))
                regions += [(pre << 1, plen + 1), ((pre << 1) | 1, plen + 1)]
            prgen.seeded(t).shuffle(regions)
            kms = [(pre << (bits - plen),
                    ((((1 << plen) - 1) << (bits - plen)) | 0xffffff00))
                   for pre, plen in regions[:n]]
        else:
            kms = [(k, (1 << bits) - 1 | 0xffffff00) for k in keys[:n]]
        for k, mk in kms:
            src = [{None}, {rt.Routes(t.draw(6))}, set(),
                   {rt.Routes(t.draw(6)), None}][t.draw_small(4, 0.6)]
            table.append(rt.RoutingTableEntry(routes[t.draw(3)], k, mk, src))
        if table and t.draw(4) == 0:
            # a repeated entry (same key, mask and route) reached by another
            # link, somewhere in the table
            e = table[t.draw(len(table))]
            table.insert(t.draw(len(table) + 1), rt.RoutingTableEntry(
                set(e.route), e.key, e.mask, {rt.Routes(t.draw(6))}))
        if t.draw(2) and kept is not None:
            # the caller keeps one list object for its tables and refills it
            kept[:] = table
            table = kept
            self.w.probe("table_list_reused")
        self.kept_table = table
        target = [None, 1, n - 1, n][t.draw(4)]
        which = t.draw(4)
        if which == 0:
            label = "ordered_covering.minimise[target=%r]" % target
            r = self.guarded(label, oc.minimise, (table, target), {},
                             [table, target])
        elif which == 1:
            aliases = {}
            if t.draw(2) and table:
                e = table[0]
                aliases[(e.key, e.mask)] = {(e.key, e.mask)}
            label = "ordered_covering.ordered_covering[target=%r,aliases]" \
                % target
            r = self.guarded(label, oc.ordered_covering, (table, target,
                                                          aliases), {},
                             [table, target, aliases])
        elif which == 2:
            label = "remove_default_routes.minimise[target=%r]" % target
            r = self.guarded(label, rdr.minimise, (table, target), {},
                             [table, target])
        else:
            label = "minimise_table[target=%r]" % target
            r = self.guarded(label, rt.minimise_table, (table, target), {},
                             [table, target])
        return label, self.norm(r)

    def call_bitfield(self, t):
        bfm = rig_module("rig.bitfield")
        bf = bfm.BitField([32, 16, 8][t.draw(3)])
        log = []
        views = [bf]
        names = ["a", "b", "c", "d"]
        for _ in range(2 + t.draw(8)):
            v = views[t.draw(len(views))]
            k = t.draw(3)
            try:
                if k == 0:
                    nm = names[t.draw(4)]
                    tg = [None, "t1", "t1 t2", self.tagsets[0],
                          self.tagsets[1], self.tagsets[2],
                          ["t2", "t3"]][t.draw(7)]
                    v.add_field(nm, [None, 2, 4][t.draw(3)],
                                [None, None, 0, 8][t.draw(4)], tg)
                    log.append(("add", nm, "ok"))
                elif k == 1:
                    nm = names[t.draw(4)]
                    views.append(v(**{nm: t.draw(6)}))
                    log.append(("derive", nm, "ok"))
                else:
                    v.assign_fields()
                    log.append(("assign", "ok"))
            except (ValueError, bfm.UnavailableFieldError) as e:
                log.append((k, type(e).__name__))
            except RecursionError:
                log.append((k, "RecursionError"))
                break
        try:
            bf.assign_fields()
        except (ValueError, RecursionError) as e:
            log.append(("final-assign", type(e).__name__))
        for v in views:
            for nm in names:
                try:
                    log.append((nm, v.get_location_and_length(nm),
                                sorted(v.get_tags(nm))))
                except Exception as e:
                    log.append((nm, type(e).__name__))
            try:
                log.append(("mask", v.get_mask()))
            except Exception as e:
                log.append(("mask", type(e).__name__))
        if self.tagsets != self.tagsets_orig:
            self.w.violate("MUT", "BitField.add_field modified the set passed "
                           "as tags=: %r, the caller built %r"
                           % ([sorted(x) for x in self.tagsets],
                              [sorted(x) for x in self.tagsets_orig]),
                           kind="argument-mutated", call="bitfield")
        return "bitfield", canon(log)

    @staticmethod
    def structs_canon(structs):
        return canon(sorted(
            (k.decode(), v.size, v.base, sorted(
                (fk.decode(), canon(tuple(fv)))
                for fk, fv in v.fields.items()
                # (the two fields boot() stamps with the time of the call:
                # the clock is not an earlier *call*)
                if fk not in (b"unix_time", b"boot_sig")))
            for k, v in structs.items()))

    def call_controller(self, t):
        """Create controllers one after another, use contexts on the first,
        report what a freshly created one looks like and where its command
        goes."""
        w = self.w
        net = SimNetwork(w, FaultPolicy({}, timeout=0.1, jitter=0.0))
        m = SimMachine(w, net, width=2, height=2)
        m.finish()
        net.hosts["spinn"] = m.chips[m.root].ip
        sent = []
        net.on_tx = lambda sock, payload: sent.append(wire.parse_scp(payload))
        seams = Seams()
        out = []
        try:
            install_net(seams, net)
            mcmod = rig_module("rig.machine_control.machine_controller")
            bmpmod = rig_module("rig.machine_control.bmp_controller")
            # what a brand-new pair of controllers looks like *before* this
            # call does anything else (earlier calls must not show)
            fresh = mcmod.MachineController("spinn", n_tries=2, timeout=0.1)
            fb = bmpmod.BMPController("spinn", n_tries=2, timeout=0.1)
            out.append(("fresh-mc", canon(fresh.get_context_arguments())))
            out.append(("fresh-bmp", canon(fb.get_context_arguments())))
            out.append(("fresh-structs", self.structs_canon(fresh.structs)))
            # a boot with options (the datagrams go nowhere): what it was
            # given must not show in anything created later
            bootmod = rig_module("rig.machine_control.boot")
            opts = [bootmod.spin3_boot_options, {"hw_ver": 2, "led0": 7},
                    {"p2p_addr": 3}, {}][t.draw(4)]
            st = bootmod.boot("spinn", boot_delay=0.0, post_boot_delay=0.0,
                              **dict(opts))
            out.append(("boot-structs", self.structs_canon(st)))
            first = mcmod.MachineController("spinn", n_tries=2, timeout=0.1)
            first.update_current_context(x=1, y=t.draw(2),
                                         app_id=30 + t.draw(5))
            try:
                with first(p=1 + t.draw(3)):
                    first.sdram_alloc(16 + 4 * t.draw(4))
                    if t.draw(2):
                        raise KeyError("body failed")
            except KeyError:
                pass
            # ... and has loaded applications, tables, tags (whatever counters
            # and caches that involves belong to *that* controller)
            files = {"/sim/hist.aplx": bytes((i * 7 + 1) & 0xff
                                             for i in range(4 * 40))}
            seams.set("rig.machine_control.machine_controller", "open",
                      lambda path, mode="r", *a, **k:
                      io.BytesIO(files[path]) if path in files
                      else open(path, mode, *a, **k))
            for _ in range(t.draw(4)):
                k = t.draw(3)
                if k == 0:
                    first.load_application(
                        "/sim/hist.aplx", {(1, 1): {1 + t.draw(4)}},
                        app_id=40 + t.draw(3))
                elif k == 1:
                    first.iptag_set(1 + t.draw(3), "10.1.2.3", 5000, 0, 0)
                else:
                    first.write(0x60000100 + 4 * t.draw(8), b"\x01\x02\x03",
                                0, t.draw(2))
            b1 = bmpmod.BMPController("spinn", n_tries=2, timeout=0.1)
            b1.update_current_context(board=3 + t.draw(3))
            # the objects created afterwards must look brand new
            second = mcmod.MachineController("spinn", n_tries=2, timeout=0.1)
            b2 = bmpmod.BMPController("spinn", n_tries=2, timeout=0.1)
            out.append(("mc-context", canon(second.get_context_arguments())))
            out.append(("bmp-context", canon(b2.get_context_arguments())))
            del sent[:]
            try:
                second.sdram_alloc(32, x=0, y=1)
                out.append(("alloc", [(d.dest_x, d.dest_y, d.dest_cpu, d.cmd,
                                       d.arg(0)) for d in sent]))
            except TypeError as e:
                out.append(("alloc", "TypeError"))
            out.append(("structs", self.structs_canon(second.structs)))
            # every datagram of an application load by the new controller
            # (fill identifiers, sequence numbers, arguments, data)
            del sent[:]
            second.load_application("/sim/hist.aplx", {(0, 1): {2, 3}},
                                    app_id=31)
            out.append(("load", [(d.dest_x, d.dest_y, d.dest_cpu, d.cmd,
                                  d.seq, d.arg(0), d.arg(1), d.arg(2),
                                  bytes(d.body[12:]).hex()) for d in sent]))
        finally:
            seams.restore()
        return "controller", canon(out)


def run_reference(kind, seed, placer=None):
    """Run the probe first in a pristine fork; -> canonical result or
    ("died", ...)."""
    r, wfd = os.pipe()
    pid = os.fork()
    if pid == 0:
        code = 0
        try:
            os.close(r)
            w = World(Tape(seed=1))
            try:
                res = Caller(w).call(kind, seed, placer)
            except Violation as v:
                res = ("violation-in-reference", v.monitor, v.message)
            if w.violation is not None:
                res = ("violation-in-reference", w.violation.monitor,
                       w.violation.message)
            with os.fdopen(wfd, "wb") as f:
                f.write(pickle.dumps(res))
        except BaseException as e:
            try:
                with os.fdopen(wfd, "wb") as f:
                    f.write(pickle.dumps(("died", type(e).__name__, str(e))))
            except Exception:
                pass
            code = 3
        finally:
            os._exit(code)
    os.close(wfd)
    with os.fdopen(r, "rb") as f:
        data = f.read()
    os.waitpid(pid, 0)
    if not data:
        return ("died", "no-data", "")
    return pickle.loads(data)


def run(world, tier, prop):
    t, w = world.tape, world
    n_hist = t.op_count(0, 12)
    probe_kind = KINDS[t.draw(len(KINDS))]
    probe_seed = t.subseed()
    probe_placer = PLACERS[t.draw(len(PLACERS))]
    w.probe("probe_" + probe_kind)
    # the reference: the probe made first in a pristine process
    ref = run_reference(probe_kind, probe_seed, probe_placer)
    w.fault("process_restart")
    if isinstance(ref, tuple) and ref and ref[0] == "died":
        raise RuntimeError("reference process failed: %r" % (ref,))
    ref_violated = isinstance(ref, tuple) and ref and \
        ref[0] == "violation-in-reference"
    if isinstance(ref, tuple) and len(ref) == 2 and not ref_violated:
        ref = ref[1]
    caller = Caller(w)
    w.ops.append("reference: %s(seed=%d) first in a pristine interpreter -> "
                 "%s" % (probe_kind, probe_seed, short(ref)))
    if n_hist >= 6:
        w.probe("history_len_ge_6")
    if ref_violated:
        # the probe misbehaves even when it is the first call of a process:
        # make the same call here so that its own monitor reports it
        n_hist = 0
    for _ in range(n_hist):
        t.next_segment()
        kind = KINDS[t.draw(len(KINDS))]
        seed = t.subseed()
        placer = None
        if t.draw(2):
            # the same kind of call as the probe (other arguments): state kept
            # by one function is most likely to show in that same function
            kind, placer = probe_kind, probe_placer
            w.probe("history_same_kind_as_probe")
        label, res = caller.call(kind, seed, placer)
        w.trace.ev("call-%s-%s" % (label.split("[")[0],
                                   res[1][0] if isinstance(res, tuple) and
                                   len(res) > 1 and isinstance(res[1], tuple)
                                   else "x"))
        w.ops.append("history: %s(seed=%d) -> %s" % (label, seed, short(res)))
    t.begin_tail()
    label, got = caller.call(probe_kind, probe_seed, probe_placer)
    w.trace.ev("probe-%s" % probe_kind)
    w.ops.append("probe: %s(seed=%d) -> %s" % (label, probe_seed, short(got)))
    w.probe("argument_snapshots", caller.snapshots)
    if isinstance(ref, tuple) and ref and ref[0] == "violation-in-reference":
        # the probe itself misbehaves even when called first: that is judged
        # by the monitors of the call (already raised in this process too)
        return {"probe": probe_kind}
    if got != ref:
        w.violate("HIST", "%s(seed=%d) after %d earlier calls returned %s; "
                  "called first in a fresh interpreter it returns %s "
                  "[first difference %s]"
                  % (label, probe_seed, n_hist, short(got), short(ref),
                     first_difference(got, ref)),
                  kind="history-dependent", call=label.split("[")[0])
    if isinstance(got, tuple) and len(got) > 1 and \
            isinstance(got[1], tuple) and got[1][:1] == ("raised",):
        w.probe("probe_raised_same_error")
    w.ops_completed += 1
    return {"probe": probe_kind, "history": n_hist}


def first_difference(a, b, path=""):
    """Where two canonical structures first differ (for the message)."""
    if type(a) is type(b) and isinstance(a, (tuple, list)):
        if len(a) != len(b):
            return "%s: lengths %d / %d" % (path or ".", len(a), len(b))
        for i, (x, y) in enumerate(zip(a, b)):
            if x != y:
                return first_difference(x, y, "%s[%d]" % (path, i))
    return "%s: %s / %s" % (path or ".", short(a), short(b))


def short(x):
    s = repr(x)
    return s if len(s) < 160 else s[:157] + "..."
