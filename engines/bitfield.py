"""C08 - bit-field keys are collision-free: fields never overlap or overflow.

Several views (bf, bf(a=1), bf(a=1, b=0), ...) share one field tree; a
scheduler interleaves their scripts: add_field (fixed / automatic position and
length, tags) in each view's scope, value assignment, assign_fields from any
view at any time (also repeatedly), get_value / get_mask /
get_location_and_length / get_tags.  Reference model: an independent list of
(identifier, requirement path, declared / assigned range, max value, tags).
(Weaker fit, stated in DESIGN.md: no clock or fault; the simulator contributes
the interleaving of parties on shared state and replayable, shrunk histories.)
"""
import collections
import itertools
import os

from rigsim.seams import rig_module
from rigsim.runner import innermost_rig_frame

RIG_MODULES = ["rig.bitfield"]
# (no fault kinds exist for this property: what the scheduler contributes is the
# interleaving of views and rejected operations; faults_fired stays empty)
COMPONENTS_REAL = ["rig.bitfield.BitField (add_field, __call__, "
                   "assign_fields, get_value, get_mask, "
                   "get_location_and_length, get_tags, __getattr__), _Tree, "
                   "_Field"]
COMPONENTS_STUB = ["scheduler interleaving the views' scripts (tape)",
                   "reference field-tree model"]
IDENTS = ["a", "b", "c", "d", "e", "f", "g", "h", "x", "y"]
TAGS = ["routing", "filter", "t3"]


def plan(tier, prop):
    quick = tier == "quick"
    return {
        "runs": 250000 if quick else 8000000,
        "budget_s": 50 if quick else 800,
        "chunk": 1000 if quick else 2000,
        "rule": "each run = one BitField (length 1..64) and a history of "
                "1-30 operations issued through a pool of views that share "
                "its field tree; non-trivial = at least one operation was "
                "accepted; distinct = distinct abstract event traces "
                "(operation kinds with accept/reject outcomes)",
        "expected_probes": ["single_field_query", "tags_other_iterable",
                            "exact_fit", "sibling_scopes_reuse_name",
                            "explicit_overlap_rejected",
                            "overflow_rejected", "assign_repeated",
                            "assign_failed", "value_too_large_rejected",
                            "tag_mask", "completeness_instance", "two_selector_prelude",
                            "add_after_assign", "negative_start",
                            "known_finding_scope_mixed"],
        "knob_ranges": {"length": "1-64", "fields": "0-12", "depth": "0-3",
                        "views": "1-8", "ops": "1-30"},
        "assumptions": [
            "after an assign_fields that raised ValueError the run ends "
            "(partial layouts are not judged)",
            "the completeness clause is asserted when no field has a position "
            "yet (neither explicit nor fixed by an earlier assign_fields: "
            "first-fit cannot move fields already laid out) and, for every set of fields that can be "
            "present together, the widths sum to at most the bit field's "
            "length; auto-sized widths are bit_length(max value) (values "
            "< 2**40 so that rig's log-based sizing is exact)"],
    }


class EndRun(Exception):
    """A listed known finding was hit: the shared tree cannot be followed any
    further by the model, the run ends here."""


class MF(object):
    """Model field."""
    __slots__ = ("ident", "reqs", "dlen", "dstart", "tags", "maxv", "alen",
                 "astart", "uid")

    def width(self):
        if self.alen is not None:
            return self.alen
        if self.dlen is not None:
            return self.dlen
        return max(1, self.maxv.bit_length())


class View(object):
    __slots__ = ("obj", "fv", "name")


class BitfieldEngine(object):
    def __init__(self, world, tier):
        self.w = world
        self.t = world.tape
        self.fields = []
        self.views = []
        self.assigned_once = False
        self.cur_scope = None
        self.ended = False

    # -- model ---------------------------------------------------------------
    def enabled(self, f, fv, memo=None):
        for g, v in f.reqs.items():
            if fv.get(g.ident) != v or not self.enabled(g, fv):
                return False
        return True

    def potential(self, f, fv):
        for g, v in f.reqs.items():
            if (g.ident in fv and fv[g.ident] != v) or \
                    not self.potential(g, fv):
                return False
        return True

    def resolve(self, ident, fv):
        for f in self.fields:
            if f.ident == ident and self.enabled(f, fv):
                return f
        return None

    def all_reqs(self, f):
        out = dict(f.reqs)
        for g in f.reqs:
            out.update(self.all_reqs(g))
        return out

    def coenablable(self, f1, f2):
        r1, r2 = self.all_reqs(f1), self.all_reqs(f2)
        for g, v in r1.items():
            if g in r2 and r2[g] != v:
                return False
        # a field cannot require a value of itself / of the other that the
        # other contradicts
        return True

    def max_path_width(self):
        """Largest sum of widths over sets of fields that can be present
        together."""
        parents = []
        for f in self.fields:
            for g in f.reqs:
                if g not in parents:
                    parents.append(g)
        options = []
        for g in parents:
            vals = sorted({f.reqs[g] for f in self.fields if g in f.reqs})
            options.append(vals + [None])
        best = 0
        for combo in itertools.product(*options) if parents else [()]:
            env = dict(zip(parents, combo))
            total = 0
            for f in self.fields:
                if all(env.get(g) == v for g, v in self.all_reqs(f).items()):
                    total += f.width()
            best = max(best, total)
        return best

    def first_fit_model(self):
        """rig's documented strategy replayed on the model: the tree keyed as
        rig keys it (children by the values of the node's own fields, in
        definition order), scopes laid out leaf-first, each field at the first
        position free of every already placed field it could be present
        with.  -> {uid: (start, length)}, or None when a field finds no room.
        Used only to tell the strategy's own incompleteness (known finding)
        from any other failure of assign_fields."""
        class Node(object):
            def __init__(self):
                self.fields = []
                self.children = collections.OrderedDict()
        root = Node()
        for f in self.fields:
            fv = {g.ident: v for g, v in self.all_reqs(f).items()}
            node = root
            while fv:
                meet = tuple((h.ident, fv[h.ident]) for h in node.fields
                             if h.ident in fv)
                if not meet:
                    return None
                node = node.children.setdefault(meet, Node())
                for i, _v in meet:
                    del fv[i]
            node.fields.append(f)
        pos = {f.uid: (f.astart, f.alen) for f in self.fields
               if f.astart is not None and f.alen is not None}
        L = self.length

        def assign(node, fv):
            bits = 0
            for g in self.fields:
                if g.uid in pos and self.potential(g, fv):
                    bits |= ((1 << pos[g.uid][1]) - 1) << pos[g.uid][0]
            for f in node.fields:
                if f.uid in pos:
                    continue
                n = f.dlen or max(1, f.maxv.bit_length())
                for bit in range(0, L - n + 1):
                    fb = ((1 << n) - 1) << bit
                    if not bits & fb:
                        pos[f.uid] = (bit, n)
                        bits |= fb
                        break
                else:
                    return False
            return True

        def rec(node, fv):
            for reqs, child in node.children.items():
                cfv = dict(reqs)
                cfv.update(fv)
                if not rec(child, cfv):
                    return False
            return assign(node, fv)
        return pos if rec(root, {}) else None

    # -- helpers -------------------------------------------------------------
    def level(self, f):
        return 0 if not f.reqs else 1 + max(self.level(g) for g in f.reqs)

    def scope_kind(self, fv):
        """'chain' when every field set in the view was defined in the scope
        of exactly the set fields above it; 'mixed' when the view also sets a
        shallower field that was not part of a deeper set field's scope."""
        R = [f for f in self.fields if f.ident in fv and self.enabled(f, fv)]
        for f in R:
            above = {g for g in R if self.level(g) < self.level(f)}
            if set(self.all_reqs(f)) != above:
                return "mixed"
        return "chain"

    def call(self, fn, *a, **k):
        """-> ("ok", value) | ("ValueError"/"Unavailable"/"UnknownTag", e)"""
        bfm = self.bfm
        name = fn.__name__ if hasattr(type(fn), "__name__") and \
            type(fn).__name__ in ("method", "function",
                                  "builtin_function_or_method") else "derive"
        try:
            r = fn(*a, **k)
            self.w.trace.ev(name + ":ok")
            return "ok", r
        except ValueError as e:
            self.w.trace.ev(name + ":ValueError")
            return "ValueError", e
        except bfm.UnavailableFieldError as e:
            self.w.trace.ev(name + ":Unavailable")
            return "Unavailable", e
        except bfm.UnknownTagError as e:
            self.w.trace.ev(name + ":UnknownTag")
            return "UnknownTag", e
        except Exception as e:
            where = innermost_rig_frame(e)
            if where is None:
                raise
            self.ended = True      # the shared tree may be left half-built
            self.w.violate("E", "%s raised %s: %s (in %s)"
                           % (name, type(e).__name__, str(e)[:80], where),
                           kind="unexpected-exception",
                           exc=type(e).__name__, scope=self.cur_scope)
            raise EndRun()

    def pick_view(self):
        return self.views[self.t.draw(len(self.views))]

    # -- operations --------------------------------------------------------
    def op_add_field(self, forced=None):
        """forced: (view, identifier, mode) for the scripted prelude."""
        t, w = self.t, self.w
        v = self.pick_view() if forced is None else forced[0]
        L = self.length
        ident = IDENTS[t.draw(len(IDENTS))] if forced is None else forced[1]
        mode = t.weighted([4, 2, 2, 2]) if forced is None else forced[2]
        dlen = dstart = None
        if self.packed:
            # fixed widths, floating positions, sized to fill the bit field
            mode = 0
            dlen = 1 + t.draw(max(1, (L + 1) // 3))
        if mode in (1, 3):
            dlen = 1 + t.draw(min(L, 12)) if t.draw(8) else \
                [0, -1, L, L + 1][t.draw(4)]
        if mode in (2, 3):
            # (half of the explicit positions crowd into the low byte, so
            # that explicitly placed fields meet - at definition, or later
            # when an automatic length has grown)
            dstart = (t.draw(min(L, 8)) if t.draw(2) else t.draw(L)) \
                if t.draw(8) else [L, L + 3, -1, -4][t.draw(4)]
        tags = None
        tk = t.draw(6)
        if tk >= 4:
            # a set object the caller re-uses for several fields
            tags = self.shared_tags[tk - 4]
        elif tk == 1:
            tags = TAGS[t.draw(3)]
        elif tk == 2:
            tags = [TAGS[t.draw(3)], TAGS[t.draw(3)]]
        elif tk == 3:
            tags = TAGS[0] + " " + TAGS[2]
        tagset = set() if tags is None else (set(tags.split()) if
                                             isinstance(tags, str) else
                                             set(tags))
        # expectation
        reason = None
        if dlen is not None and dlen <= 0:
            reason = "zero-length"
        elif dstart is not None and (dstart < 0 or dstart >= L or
                                     dstart + (dlen or 1) > L):
            reason = "overflow"
            if dstart < 0:
                w.probe("negative_start")
        elif dlen is not None and dlen > L:
            reason = "overflow-length"      # judged at assign_fields at latest
        if reason is None:
            for f in self.fields:
                if f.ident == ident and self.potential(f, v.fv):
                    reason = "duplicate"
        overlap = None
        if reason is None and dstart is not None:
            lo, hi = dstart, dstart + (dlen or 1)
            for f in self.fields:
                if not self.potential(f, v.fv):
                    continue
                fs = f.astart if f.astart is not None else f.dstart
                if fs is None:
                    continue
                fl = f.alen if f.alen is not None else (f.dlen or 1)
                if hi > fs and fs + fl > lo:
                    overlap = f
                    reason = "overlap"
        label = "%s.add_field(%r, length=%r, start_at=%r, tags=%s)" % (
            v.name, ident, dlen, dstart,
            ("shared set %r" % sorted(tags)) if isinstance(tags, set)
            else repr(tags))
        w.trace.ev("op", "add_field")
        w.ops.append(label)
        self.cur_scope = self.scope_kind(v.fv)
        if self.cur_scope == "mixed":
            w.probe("known_finding_scope_mixed")
        given_tags = tags
        if isinstance(tags, list) and t.draw(2):
            # the tags as a tuple, or as a one-shot iterator
            given_tags = [tuple(tags), iter(tags),
                          (x for x in tags)][t.draw(3)]
            w.probe("tags_other_iterable")
        st, val = self.call(v.obj.add_field, ident, dlen, dstart, given_tags)
        self.cur_scope = None
        w.ops[-1] += " -> " + st
        if st == "other":
            return
        if self.shared_tags != [set(["routing"]), set(["filter", "t3"])]:
            w.violate("TAG", "add_field modified the set object the caller "
                      "passed as tags= (now %r)" % (
                          [sorted(x) for x in self.shared_tags],),
                      kind="tags-argument-mutated")
        if reason in ("zero-length", "overflow", "duplicate", "overlap"):
            if reason == "overlap":
                w.probe("explicit_overlap_rejected")
            if reason == "overflow":
                w.probe("overflow_rejected")
            if st == "ok":
                w.violate("REJ", "%s was accepted although it %s" % (
                    label, {"zero-length": "has no bits",
                            "overflow": "does not fit inside the %d-bit bit "
                                        "field" % L,
                            "duplicate": "re-uses an identifier visible in "
                                         "its scope",
                            "overlap": "overlaps field %r at [%r, +%r)" % (
                                overlap and overlap.ident,
                                overlap and (overlap.astart if overlap.astart
                                             is not None else overlap.dstart),
                                overlap and (overlap.alen or overlap.dlen
                                             or 1))}[reason]),
                    kind="accepted-" + reason)
                self.ended = True
            return
        if st != "ok":
            if reason == "overflow-length":
                return
            w.violate("REJ", "%s was rejected (%s: %s) although it is a "
                      "legal definition" % (label, st, val),
                      kind="spurious-rejection")
            return
        f = MF()
        f.ident, f.dlen, f.dstart = ident, dlen, dstart
        f.tags = set(tagset)
        f.maxv = 1
        f.alen = f.astart = None
        if dlen is not None and dstart is not None:
            # fully specified: its range is known without assign_fields
            f.alen, f.astart = dlen, dstart
        f.uid = len(self.fields)
        self.keys = []      # keys are comparable only over one field tree
        f.reqs = {}
        for g in self.fields:
            if g.ident in v.fv and self.enabled(g, v.fv):
                f.reqs[g] = v.fv[g.ident]
        # only direct parents are needed (all_reqs adds the rest)
        self.fields.append(f)
        for g in self.all_reqs(f):
            g.tags |= tagset
        if any(o.ident == ident for o in self.fields[:-1]):
            w.probe("sibling_scopes_reuse_name")
        depth = 0
        g = f
        while g.reqs:
            depth += 1
            g = next(iter(g.reqs))
        if depth >= 3:
            w.probe("depth_3")
        if self.assigned_once:
            w.probe("add_after_assign")
        w.ops_completed += 1

    def op_derive(self, forced=None):
        """A new view with more field values set.  forced: (view, ident) for
        the scripted prelude (the value is still drawn)."""
        t, w = self.t, self.w
        v = self.pick_view() if forced is None else forced[0]
        cands = [f for f in self.fields if self.enabled(f, v.fv)]
        vals = {}
        for _ in range(1 + t.draw(2) if forced is None else 1):
            if forced is not None:
                ident = forced[1]
            elif cands and t.draw(8):
                f = cands[t.draw(len(cands))]
                ident = f.ident
            else:
                ident = IDENTS[t.draw(len(IDENTS))]
            width = None
            f = self.resolve(ident, dict(v.fv, **vals))
            if f is not None:
                width = f.alen if f.alen is not None else f.dlen
            k = t.draw(6)
            if width is not None and k == 0:
                val = 1 << width            # too large
            elif width is not None:
                val = t.draw(1 << min(width, 40))
                if t.draw(4) == 0:
                    # extremes: all ones, top bit only, zero
                    val = [(1 << width) - 1, 1 << (width - 1), 0][t.draw(3)]
            else:
                val = [0, 1, 2, 3, 7, 200, 300, 1000, (1 << 33) + 5, 1 << 49,
                       1 << 52, (1 << 48) - 1, 1 << 60, 1 << 31][
                           t.draw_small(14, 0.85)]
            if t.draw(30) == 0:
                val = -1
            # a fresh int object every time: equal values reached through
            # different objects must behave identically
            vals[ident] = int(str(val))
        nfv = dict(v.fv)
        reason = None
        for ident in vals:
            if ident in v.fv:
                reason = "already-set"
        nfv.update(vals)
        if reason is None:
            for ident, val in nfv.items():
                f = self.resolve(ident, nfv)
                if f is None:
                    reason = "unavailable"
                    break
                if val < 0:
                    reason = "negative"
                    break
                width = f.alen if f.alen is not None else f.dlen
                if width is not None and val >= (1 << width):
                    reason = "too-large"
                    break
        label = "%s(%s)" % (v.name, ", ".join("%s=%d" % kv for kv in
                                              sorted(vals.items())))
        w.trace.ev("op", "derive")
        w.ops.append(label)
        st, obj = self.call(v.obj, **vals)
        w.ops[-1] += " -> " + st
        if st == "other":
            return
        if reason is not None:
            if reason == "too-large":
                w.probe("value_too_large_rejected")
            if st == "ok":
                w.violate("VAL", "%s was accepted although a value is %s"
                          % (label, reason), kind="accepted-" + reason)
                self.ended = True
            return
        if st != "ok":
            w.violate("VAL", "%s was rejected (%s: %s) although every field "
                      "is available and every value fits" % (label, st, obj),
                      kind="spurious-rejection")
            return
        for ident, val in nfv.items():
            f = self.resolve(ident, nfv)
            f.maxv = max(f.maxv, val)
        nv = View()
        nv.obj = obj
        nv.fv = nfv
        nv.name = "v%d" % len(self.views)
        self.views.append(nv)
        w.ops[-1] += " = " + nv.name
        w.ops_completed += 1

    def op_assign(self):
        t, w = self.t, self.w
        v = self.pick_view()
        if self.assigned_once:
            w.probe("assign_repeated")
        no_explicit = all(f.dstart is None and f.astart is None or
                          f.astart is not None and f.dstart is None
                          for f in self.fields) and \
            all(f.dstart is None for f in self.fields)
        need = self.max_path_width()
        fits_len = all((f.dlen or 1) <= self.length for f in self.fields)
        # positions fixed by an earlier assign_fields act like explicit ones
        # for the fields added since (first-fit cannot move them)
        complete = no_explicit and need <= self.length and fits_len and \
            all(f.maxv < (1 << 40) for f in self.fields) and \
            all(f.astart is None for f in self.fields)
        model = None
        if complete:
            w.probe("completeness_instance")
            if need == self.length:
                w.probe("exact_fit")
            model = self.first_fit_model()
            if model is None:
                w.probe("first_fit_strategy_incomplete")
        w.trace.ev("op", "assign_fields")
        w.ops.append("%s.assign_fields()  [widest co-present set: %d of %d "
                     "bits]" % (v.name, need, self.length))
        st, val = self.call(v.obj.assign_fields)
        w.ops[-1] += " -> " + st
        if st == "other":
            return
        if st != "ok":
            w.probe("assign_failed")
            if complete:
                w.violate("FIT", "assign_fields failed (%s) although no "
                          "field is explicitly positioned and the fields that "
                          "can be present together need at most %d of the %d "
                          "bits" % (val, need, self.length),
                          kind="completeness",
                          first_fit="fails" if model is None else "succeeds")
            self.ended = True
            return
        self.assigned_once = True
        root = self.views[0]
        # read back every field's range through a view in which it is enabled
        for f in self.fields:
            fv = {g.ident: val for g, val in self.all_reqs(f).items()}
            st2, view = self.call(self.root_obj, **fv) if fv else \
                ("ok", self.root_obj)
            if st2 != "ok":
                continue
            st3, ll = self.call(view.get_location_and_length, f.ident)
            if st3 != "ok":
                w.violate("LAY", "after assign_fields field %r has no "
                          "position/length (%s)" % (f.ident, ll),
                          kind="unassigned")
                continue
            f.astart, f.alen = ll
            for g, val in self.all_reqs(f).items():
                g.maxv = max(g.maxv, val)
        if complete and os.environ.get("VERIF_C08_VALIDATE_MODEL"):
            # development aid: is the replayed strategy faithful to rig's?
            got = {f.uid: (f.astart, f.alen) for f in self.fields}
            if model != got:
                w.violate("MODEL", "first-fit model %r, rig %r" % (model, got),
                          kind="model-mismatch")
        self.check_layout()
        w.ops_completed += 1

    def check_layout(self):
        w = self.w
        L = self.length
        fs = [f for f in self.fields if f.astart is not None]
        for f in fs:
            if f.astart < 0 or f.astart + f.alen > L or f.alen <= 0:
                w.violate("LAY", "field %r occupies bits [%d, %d) of a %d-bit "
                          "bit field" % (f.ident, f.astart,
                                         f.astart + f.alen, L),
                          kind="outside")
            if f.dlen is not None and f.alen != f.dlen:
                w.violate("LAY", "field %r declared %d bits, assigned %d"
                          % (f.ident, f.dlen, f.alen), kind="length-changed")
            if f.dstart is not None and f.astart != f.dstart:
                w.violate("LAY", "field %r declared at bit %d, assigned %d"
                          % (f.ident, f.dstart, f.astart),
                          kind="start-changed")
            if f.maxv.bit_length() > f.alen:
                w.violate("LAY", "field %r is %d bits wide but was given the "
                          "value %d" % (f.ident, f.alen, f.maxv),
                          kind="too-narrow")
        for i, f1 in enumerate(fs):
            for f2 in fs[i + 1:]:
                if self.coenablable(f1, f2) and \
                        f1.astart < f2.astart + f2.alen and \
                        f2.astart < f1.astart + f1.alen:
                    w.violate("LAY", "fields %r [%d, +%d) and %r [%d, +%d) "
                              "can be present together and overlap"
                              % (f1.ident, f1.astart, f1.alen, f2.ident,
                                 f2.astart, f2.alen), kind="overlap")

    def op_read(self):
        """get_value / get_mask / tags through a view."""
        t, w = self.t, self.w
        v = self.pick_view()
        present = [f for f in self.fields if self.enabled(f, v.fv)]
        which = t.draw(5)
        if which == 4:
            ident = IDENTS[t.draw(len(IDENTS))]
            f = self.resolve(ident, v.fv)
            w.trace.ev("op", "get_location_and_length")
            w.ops.append("%s.get_location_and_length(%r)" % (v.name, ident))
            st, ll = self.call(v.obj.get_location_and_length, ident)
            w.ops[-1] += " -> %s" % (st if st != "ok" else (ll,))
            if f is None:
                if st != "Unavailable":
                    w.violate("LAY", "location of a field that is not "
                              "available in this view read as %s" % st,
                              kind="location-unavailable")
                return
            if f.astart is None:
                if st == "ok" and not (f.dlen is not None and
                                       f.dstart is not None):
                    # rig may already know more than the model only if both
                    # were declared
                    w.violate("LAY", "field %r has no assigned position but "
                              "get_location_and_length returned %r"
                              % (ident, ll), kind="location-unassigned")
                return
            if st != "ok" or tuple(ll) != (f.astart, f.alen):
                w.violate("LAY", "%s.get_location_and_length(%r) = %s; the "
                          "field was laid out at (%d, %d)"
                          % (v.name, ident, ll if st == "ok" else st,
                             f.astart, f.alen), kind="location")
            w.ops_completed += 1
            return
        if which in (0, 1) and t.draw(4) == 0:
            # mask / value of one named field
            ident = IDENTS[t.draw(len(IDENTS))]
            f = self.resolve(ident, v.fv)
            meth = "get_mask" if which == 0 else "get_value"
            w.trace.ev("op", meth + "-field")
            w.ops.append("%s.%s(field=%r)" % (v.name, meth, ident))
            w.probe("single_field_query")
            st, val = self.call(getattr(v.obj, meth), field=ident)
            w.ops[-1] += " -> %s" % (st if st != "ok" else hex(val))
            if f is None:
                if st != "Unavailable":
                    w.violate("LAY", "%s(field=%r) of a field that is not "
                              "available in this view returned %s"
                              % (meth, ident, st),
                              kind="field-query-unavailable")
                return
            if f.astart is None or (which == 1 and ident not in v.fv):
                if st == "ok" and not (f.dlen is not None and
                                       f.dstart is not None and
                                       (which == 0 or ident in v.fv)):
                    w.violate("MASK" if which == 0 else "VAL",
                              "%s(field=%r) succeeded for a field without %s"
                              % (meth, ident, "a position" if f.astart is None
                                 else "a value"), kind="field-query-undefined")
                return
            want = (((1 << f.alen) - 1) if which == 0 else v.fv[ident]) \
                << f.astart
            if st != "ok" or val != want:
                w.violate("MASK" if which == 0 else "KEY",
                          "%s.%s(field=%r) = %s; the field lies at (%d, %d)%s"
                          % (v.name, meth, ident,
                             hex(val) if st == "ok" else st, f.astart, f.alen,
                             "" if which == 0 else " and holds %#x"
                             % v.fv[ident]), kind="field-query")
            # the objects also describe themselves
            try:
                repr(v.obj)
                v.obj == v.obj
                v.obj != v.obj
            except Exception as e:
                w.violate("E", "repr()/== of a bit field raised %s: %s"
                          % (type(e).__name__, e), kind="unexpected-exception",
                          exc=type(e).__name__, scope=self.cur_scope)
            w.ops_completed += 1
            return
        if which == 0:
            # mask, maybe tag-restricted
            tag = TAGS[t.draw(3)] if t.draw(2) else None
            sel = [f for f in present if tag is None or tag in f.tags]
            w.trace.ev("op", "get_mask")
            w.ops.append("%s.get_mask(tag=%r)" % (v.name, tag))
            st, m = self.call(v.obj.get_mask, tag=tag)
            w.ops[-1] += " -> %s" % (st if st != "ok" else hex(m))
            if tag is not None:
                w.probe("tag_mask")
            if tag is not None and not sel:
                if st != "UnknownTag":
                    w.violate("TAG", "get_mask(tag=%r) with no such tag "
                              "returned %s" % (tag, st), kind="unknown-tag")
                return
            if any(f.astart is None for f in sel):
                if st == "ok":
                    w.violate("MASK", "get_mask succeeded with unassigned "
                              "fields", kind="mask-unassigned")
                return
            want = 0
            for f in sel:
                want |= ((1 << f.alen) - 1) << f.astart
            if st != "ok" or m != want:
                w.violate("MASK", "%s.get_mask(tag=%r) = %s, the present "
                          "fields%s cover %#x" % (
                              v.name, tag, hex(m) if st == "ok" else st,
                              "" if tag is None else " with that tag", want),
                          kind="mask")
            w.ops_completed += 1
        elif which == 1:
            tag = TAGS[t.draw(3)] if t.draw(3) == 0 else None
            sel = [f for f in present if tag is None or tag in f.tags]
            w.trace.ev("op", "get_value")
            w.ops.append("%s.get_value(tag=%r)" % (v.name, tag))
            st, val = self.call(v.obj.get_value, tag=tag)
            w.ops[-1] += " -> %s" % (st if st != "ok" else hex(val))
            if tag is not None and not sel:
                if st != "UnknownTag":
                    w.violate("TAG", "get_value(tag=%r) with no such tag "
                              "returned %s" % (tag, st), kind="unknown-tag")
                return
            if any(f.ident not in v.fv or f.astart is None for f in sel):
                if st == "ok":
                    w.violate("VAL", "get_value succeeded with undefined "
                              "fields", kind="value-undefined")
                return
            want = 0
            for f in sel:
                want |= v.fv[f.ident] << f.astart
            if st != "ok" or val != want:
                w.violate("KEY", "%s.get_value(tag=%r) = %s; reading each "
                          "field back at its reported position gives %#x"
                          % (v.name, tag, hex(val) if st == "ok" else st,
                             want), kind="value")
                return
            # complete assignment: remember the key/mask pair
            if tag is None:
                stm, m = self.call(v.obj.get_mask)
                if stm == "ok":
                    sig = tuple(sorted((f.uid, v.fv[f.ident]) for f in sel))
                    for (k2, m2, sig2) in self.keys:
                        if sig2 != sig and not ((val ^ k2) & m & m2):
                            w.violate("KEY", "two different complete "
                                      "assignments give key/mask pairs that "
                                      "match each other: %#x/%#x and %#x/%#x"
                                      % (val, m, k2, m2), kind="collision")
                    self.keys.append((val, m, sig))
            w.ops_completed += 1
        elif which == 2:
            ident = IDENTS[t.draw(len(IDENTS))]
            f = self.resolve(ident, v.fv)
            w.trace.ev("op", "get_tags")
            w.ops.append("%s.get_tags(%r)" % (v.name, ident))
            st, tg = self.call(v.obj.get_tags, ident)
            w.ops[-1] += " -> %s" % (st if st != "ok" else sorted(tg))
            if f is None:
                if st != "Unavailable":
                    w.violate("TAG", "get_tags of an unavailable field "
                              "returned %s" % st, kind="tags-unavailable")
                return
            if st != "ok" or set(tg) != f.tags:
                w.violate("TAG", "%s.get_tags(%r) = %s; the field and the "
                          "fields that depend on it were tagged %r"
                          % (v.name, ident, sorted(tg) if st == "ok" else st,
                             sorted(f.tags)), kind="tags")
            w.ops_completed += 1
        else:
            ident = IDENTS[t.draw(len(IDENTS))]
            f = self.resolve(ident, v.fv)
            w.trace.ev("op", "getattr")
            w.ops.append("%s.%s" % (v.name, ident))
            st, val = self.call(getattr, v.obj, ident)
            w.ops[-1] += " -> %s" % (st if st != "ok" else val)
            if f is None:
                if st != "Unavailable":
                    w.violate("VAL", "value of an unavailable field read as "
                              "%s" % st, kind="getattr-unavailable")
                return
            if st != "ok" or val != v.fv.get(ident):
                w.violate("VAL", "%s.%s reads %r, the view set %r"
                          % (v.name, ident, val, v.fv.get(ident)),
                          kind="getattr")
            w.ops_completed += 1

    def prelude(self):
        """A scripted opening: two selector fields at the top, sibling scopes
        under single values of either (defined in a drawn order), in each a
        field of a drawn kind - crowded explicit positions included - then
        values for them.  Every step goes through the ordinary operations (and
        their oracles); only *which* view and name is scripted."""
        t, w = self.t, self.w
        w.probe("two_selector_prelude")
        root = self.views[0]
        for ident in ("a", "b"):
            self.op_add_field(forced=(root, ident, [0, 1][t.draw(2)]))
            if self.ended:
                return
        scopes = [("a", 0), ("a", 1), ("b", 0), ("b", 1)]
        prgen_rng = __import__("random").Random(t.subseed())
        prgen_rng.shuffle(scopes)
        names = ["c", "d", "e", "f"]
        made = []
        for (sel, val), nm in zip(scopes[:2 + t.draw(3)], names):
            before = len(self.views)
            st, obj = self.call(root.obj, **{sel: val})
            if st != "ok":
                return
            nv = View()
            nv.obj, nv.fv, nv.name = obj, {sel: val}, "v%d" % len(self.views)
            self.views.append(nv)
            w.ops.append("bf(%s=%d) -> ok = %s" % (sel, val, nv.name))
            f = self.resolve(sel, nv.fv)
            if f is not None:
                f.maxv = max(f.maxv, val)
            self.op_add_field(forced=(nv, nm, t.weighted([1, 1, 3, 3])))
            if self.ended:
                return
            made.append((nv, nm))
        for nv, nm in made:
            if t.draw(2):
                self.op_derive(forced=(nv, nm))
                if self.ended:
                    return

    # -- run -------------------------------------------------------------
    def run(self):
        t, w = self.t, self.w
        self.bfm = rig_module("rig.bitfield")
        self.length = [32, 32, 8, 16, 64, 1 + t.draw(40), 4][t.draw(7)]
        self.root_obj = self.bfm.BitField(self.length)
        root = View()
        root.obj, root.fv, root.name = self.root_obj, {}, "bf"
        self.views = [root]
        self.keys = []
        self.ended = False
        self.shared_tags = [set(["routing"]), set(["filter", "t3"])]
        self.packed = t.draw(6) == 0
        if self.packed:
            w.probe("packed_hierarchy")
        w.ops.append("bf = BitField(%d)%s" % (
            self.length, "  (packed: fixed widths, floating positions)"
            if self.packed else ""))
        n_ops = t.op_count(1, 30)
        try:
            if not self.packed and t.draw(8) == 0:
                self.prelude()
            for _ in range(n_ops):
                if self.ended:
                    break
                t.next_segment()
                k = t.weighted([6, 6, 2, 5] if not self.packed else
                               [6, 6, 0, 1])
                [self.op_add_field, self.op_derive, self.op_assign,
                 self.op_read][k]()
            t.begin_tail()
            if not self.ended:
                self.op_assign()
                if not self.ended:
                    for _ in range(3):
                        self.op_read()
        except EndRun:
            pass
        return {"fields": len(self.fields), "views": len(self.views),
                "length": self.length}


def run(world, tier, prop):
    return BitfieldEngine(world, tier).run()
