"""Generators shared by the place-and-route engines: vertices and nets with
fixed hashes (so that runs are identical under any PYTHONHASHSEED), machines,
constraint sets, orthogonal key/mask assignments."""
import collections
import random as pyrandom

from rigsim.seams import rig_module


class V(object):
    """A vertex with a fixed integer hash."""
    __slots__ = ("i", "tag")

    def __init__(self, i, tag="v"):
        self.i = i
        self.tag = tag

    def __hash__(self):
        return self.i * 7919 + 13

    def __eq__(self, other):
        return self is other

    def __ne__(self, other):
        return self is not other

    def __repr__(self):
        return "%s%d" % (self.tag, self.i)


class ResId(object):
    """A caller-defined resource identifier (any hashable object will do)."""
    __slots__ = ("name",)

    def __init__(self, name):
        self.name = name

    def __hash__(self):
        return sum(ord(ch) * (i + 3) for i, ch in enumerate(self.name)) + 99991

    def __repr__(self):
        return self.name


class Resources(object):
    """The three resource identifiers a run uses: rig's own, or the
    caller's."""

    def __init__(self, par, custom):
        if custom:
            self.Cores, self.SDRAM, self.SRAM = (
                ResId("MyCores"), ResId("MySDRAM"), ResId("MySRAM"))
        else:
            self.Cores, self.SDRAM, self.SRAM = par.Cores, par.SDRAM, par.SRAM
        self.custom = custom


class EV(V):
    """A vertex compared by value: separately created equal objects name the
    same vertex (as strings or tuples used as vertices do)."""
    __slots__ = ()

    def __eq__(self, other):
        return isinstance(other, EV) and other.i == self.i

    def __ne__(self, other):
        return not self.__eq__(other)

    def __hash__(self):
        return self.i * 7919 + 13


class CV(V):
    """Vertices whose hashes all collide (legal, merely slow)."""
    __slots__ = ()

    def __hash__(self):
        return 42


# what the caller uses as vertices (vertices are "any hashable object"; none
# of these can be ordered against all the others)
VKINDS = ["obj", "int", "tuple", "eq", "mixed", "samehash"]


def vid(v):
    """Index of a generated vertex, whatever its type."""
    if isinstance(v, V):
        return v.i
    if isinstance(v, tuple):
        return v[1]
    return v


def make_vertex(kind, i):
    if kind == "mixed":
        kind = ["obj", "int", "tuple", "eq"][i % 4]
    if kind == "int":
        return i
    if kind == "tuple":
        return (7, i)
    if kind == "eq":
        return EV(i)
    if kind == "samehash":
        return CV(i)
    return V(i)


def alias(v):
    """The same vertex as the caller might name it elsewhere: an equal but
    separately created object where the type compares by value."""
    if isinstance(v, EV):
        return EV(v.i)
    if isinstance(v, tuple):
        return tuple(list(v))
    return v


_net_cls = {}


def net_class():
    """rig.netlist.Net subclass with a fixed hash."""
    Net = rig_module("rig.netlist").Net
    if Net not in _net_cls:
        class HNet(Net):
            _n = 0

            def __init__(self, source, sinks, weight=1.0, ident=None):
                Net.__init__(self, source, sinks, weight)
                self.ident = ident

            def __hash__(self):
                return 1000003 * (self.ident + 1)

            def __eq__(self, other):
                return self is other

            def __ne__(self, other):
                return self is not other

            def __repr__(self):
                return "net%d" % self.ident
        _net_cls[Net] = HNet
    return _net_cls[Net]


class Graph(object):
    def __init__(self, t=None):
        self.vkind = "obj" if t is None else \
            VKINDS[t.weighted([10, 2, 2, 3, 2, 1])]
        # dense keys: nets get the regions of a prefix-free split of a small
        # key space (orthogonal, of mixed generality, adjacent - the food of
        # the covering minimiser); 0 = each net has its own upper 20 bits
        self.dense_bits = 0 if t is None else [0, 0, 3, 4, 6][t.draw(5)]
        self.free_regions = [(0, 0)]
        self.high_keys = t is not None and t.draw(4) == 0
        # how readily a net brings in a new vertex: low = many nets among few
        # vertices (many keys sharing each route: the covering minimiser's
        # merges then overlap)
        self.new_p = 0.5 if t is None else [0.5, 0.5, 0.5, 0.1, 0.25][
            t.draw(5)]
        if self.dense_bits in (3, 4) and t is not None and t.draw(2):
            self.new_p = 0.1
        self.vertices_resources = collections.OrderedDict()
        self.nets = []
        self.net_keys = collections.OrderedDict()
        self.constraints = []
        self.endpoints = {}          # vertex -> Routes
        self.located = {}            # vertex -> (x, y)
        self.same_chip = []          # [[v, ...]]
        self.sdram_max = 2000
        self.broadcasts = 0
        # cube-structured keys: the nets that share a route get the keys of
        # one aligned cube (XX01, 0X1X, ...) - what a bit-field layout gives
        # them - and the cubes of different groups intersect, all of one
        # generality: the covering minimiser can then rebuild each cube as
        # one entry, and the entries of a table overlap without any being
        # more general than another
        self.cube_keys = t is not None and t.draw(6) == 0
        # ... and a relay line (see the deploy engine), alone or among the
        # other nets
        # ternary keys: each net's key has its own don't-care bits anywhere
        # in a small key space (as keys cut from a bit field with unused
        # fields have), no two nets' keys matching a common packet
        self.ternary_bits = 0
        if t is not None and not self.cube_keys and t.draw(6) == 0:
            self.ternary_bits = 5 + t.draw(3)
            self.ternary = []
            self.dense_bits = 0
            self.high_keys = False
            self.new_p = [0.1, 0.25][t.draw(2)]
        self.cube_k = 1 + t.draw(3) if self.cube_keys else 0
        self.cube_sparse = self.cube_keys and bool(t.draw(2))
        self.relay = self.cube_keys and bool(t.draw(2))
        self.relay_only = self.relay and bool(t.draw(2))
        if self.cube_keys:
            self.new_p = 0.1
            self.dense_bits = 0
            self.high_keys = False

    def describe(self):
        return "%d vertices (%s), %d nets, %d location, %d same-chip groups, %d " \
            "endpoints" % (len(self.vertices_resources), self.vkind,
                           len(self.nets),
                           len(self.located), len(self.same_chip),
                           len(self.endpoints))


def new_vertex(t, g, par, kind=None, sdram_max=2000):
    i = len(g.vertices_resources)
    v = make_vertex(g.vkind, i)
    k = t.weighted([10, 2, 2, 1, 1] if sdram_max > 100 else [6, 1, 8, 1, 1]) \
        if kind is None else kind
    res = collections.OrderedDict()
    if k == 0:
        res[par.Cores] = 1
    elif k == 1:
        res[par.Cores] = 2 + t.draw(2)
    elif k == 2:
        res[par.Cores] = 1
        res[par.SDRAM] = t.draw(sdram_max)
    elif k == 3:
        res[par.Cores] = 0          # device vertex
    else:
        pass                         # needs nothing at all
    if t.draw(8) == 0:
        res[par.SRAM] = t.draw(64)
    if len(res) > 1 and t.draw(3) == 0:
        res = collections.OrderedDict(reversed(list(res.items())))
    g.vertices_resources[v] = res
    return v


def add_net(t, g, par, max_fanout=12):
    """One more net (this is one tape 'operation')."""
    HNet = net_class()
    vs = list(g.vertices_resources)

    def pick(new_p):
        if not vs or t.chance(new_p):
            v = new_vertex(t, g, par, sdram_max=g.sdram_max)
            vs.append(v)
            return v
        v = vs[t.draw(len(vs))]
        return alias(v) if g.vkind in ("eq", "tuple", "mixed") else v
    src = pick(g.new_p)
    fan = t.draw_small(max_fanout + 1, 0.6)
    if max_fanout >= 12 and t.draw(40) == 0:
        # a broadcast-like net: with a small search radius the router then
        # looks for the nearest tree node by scanning outwards from the sink
        # instead of scanning the tree
        fan = 20 + t.draw(41)
        g.broadcasts += 1
    sinks = [pick(max(g.new_p, 0.5) if fan >= 20 else g.new_p)
             for _ in range(fan)]
    if sinks and t.draw(6) == 0:
        sinks.append(sinks[0])              # repeated sink
    if t.draw(8) == 0:
        sinks.append(src)                   # self-loop
    weight = [1.0, 1.0, 0, 0.5, 3, 100.0, -1.0, -25][t.draw_small(8, 0.75)]
    ident = len(g.nets)
    net = HNet(src, sinks, weight, ident=ident)
    g.nets.append(net)
    km = dense_key(t, g) if g.dense_bits else None
    if km is None and g.ternary_bits:
        km = ternary_key(t, g)
    if km is None and g.high_keys and ident < 255:
        # orthogonal keys told apart by their *top* byte (so that keys lie on
        # both sides of 2**31 and differ in bit 31 among others)
        mask = [0xffffffff, 0xff000000, 0xffffff00, 0xfffffff0][t.draw(4)]
        key = ((((ident + 1) * 37) & 0xff) << 24) | \
            (t.draw(1 << 24) & mask & 0xffffff)
        km = (key & mask, mask)
    if km is None:
        # orthogonal keys: distinct upper 20 bits, mixed generality
        mask = [0xffffffff, 0xfffff000, 0xffffff00, 0xfffffff0][t.draw(4)]
        key = ((ident + 1) << 12) | (t.draw(1 << 12) & mask & 0xfff)
        km = (key & mask, mask)
    g.net_keys[net] = km
    if t.draw(30) == 0:
        # the caller lists the very same net twice
        g.nets.append(g.nets[t.draw(len(g.nets))])
    return net


def assign_cube_keys(t, g):
    """Replace the keys of g's nets by cube-structured ones (see Graph)."""
    db = 4 + t.draw(3)
    k = g.cube_k
    groups = collections.OrderedDict()
    seen = set()
    for net in g.nets:
        if id(net) in seen:
            continue
        seen.add(id(net))
        sig = (vid(net.source), tuple(sorted({vid(s) for s in net.sinks})))
        groups.setdefault(sig, []).append(net)
    base = t.draw(1 << 12) << 12
    used = set()
    spare = 1 << db
    order = list(groups.values())
    for i in range(len(order) - 1, 0, -1):
        j = t.draw(i + 1)
        order[i], order[j] = order[j], order[i]
    prev = None
    for grp in order:
        remaining = list(grp)
        for _ in range(6):
            if not remaining:
                break
            pos = list(range(db))
            xs = [pos.pop(t.draw(len(pos))) for _ in range(k)]
            fixed = t.draw(1 << db)
            if prev is not None and t.draw(2):
                # a cube that meets the previous group's: same values where
                # both are fixed
                pxs, pfixed = prev
                for b in range(db):
                    if b not in xs and b not in pxs:
                        fixed = (fixed & ~(1 << b)) | (pfixed & (1 << b))
            prev = (xs, fixed)
            # (all keys of the cube, or only two opposite corners of it)
            subs = range(1 << k)
            if g.cube_sparse:
                c0 = t.draw(1 << k)
                subs = [c0, c0 ^ ((1 << k) - 1)]
            for sub in subs:
                key = fixed
                for i, b in enumerate(xs):
                    key = (key & ~(1 << b)) | (((sub >> i) & 1) << b)
                if key not in used and remaining:
                    used.add(key)
                    g.net_keys[remaining.pop()] = (base | key, 0xffffffff)
        for net in remaining:
            g.net_keys[net] = (base | spare, 0xffffffff)
            spare += 1


def ternary_key(t, g):
    """A key/mask over g.ternary_bits low bits with 0-3 don't-care bits at
    drawn positions that matches no packet an earlier net's key matches
    (None when no room was found)."""
    db = g.ternary_bits
    full = (1 << db) - 1
    upper = 0xffffffff & ~full
    for _ in range(12):
        mask = full
        for _x in range(t.draw_small(4, 0.6)):
            mask &= ~(1 << t.draw(db))
        key = t.draw(1 << db) & mask
        if all((key ^ k2) & mask & m2 for k2, m2 in g.ternary):
            g.ternary.append((key, mask))
            return key, upper | mask
    return None


def dense_key(t, g):
    """The next region of the prefix-free split (None when used up)."""
    if not g.free_regions:
        return None
    db = g.dense_bits
    prefix, plen = g.free_regions.pop(t.draw(len(g.free_regions)))
    while plen < db and t.draw(4) != 0:
        bit = t.draw(2)
        g.free_regions.append(((prefix << 1) | (1 - bit), plen + 1))
        prefix, plen = (prefix << 1) | bit, plen + 1
    key = prefix << (db - plen)
    mask = (((1 << plen) - 1) << (db - plen)) | \
        (0xffffffff & ~((1 << db) - 1))
    return key, mask


def packet_key(t, key, mask):
    """A key a packet of that net may carry (don't-care bits arbitrary)."""
    return (key | (t.draw(1 << 12) & ~mask)) & 0xffffffff


def strongly_connected_truth(chips, link_ok):
    """chips: iterable of (x, y); link_ok(x, y, l) -> neighbour xy or None."""
    chips = list(chips)
    if len(chips) <= 1:
        return True
    fwd = {c: [] for c in chips}
    rev = {c: [] for c in chips}
    for (x, y) in chips:
        for l in range(6):
            n = link_ok(x, y, l)
            if n is not None and n in fwd and n != (x, y):
                fwd[(x, y)].append(n)
                rev[n].append((x, y))
    for adj in (fwd, rev):
        seen = {chips[0]}
        stack = [chips[0]]
        while stack:
            c = stack.pop()
            for n in adj[c]:
                if n not in seen:
                    seen.add(n)
                    stack.append(n)
        if len(seen) != len(chips):
            return False
    return True


def seeded(t):
    return pyrandom.Random(t.subseed())
