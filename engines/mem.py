"""C07 - byte-exact remote memory.

Real: MachineController.read/write/fill/read_struct_field/write_struct_field/
read_vcpu_struct_field/write_vcpu_struct_field/read_across_link/
write_across_link, SCPConnection.read/write, consts.address_length_dtype.
Peer: SimMachine memory.  Oracle: operation-level shadow memory; after every
operation all materialised pages of all chips are compared.
"""
import struct as pystruct

from rigsim import wire
from rigsim.machine import Memory, SV_BASE, VCPU_SIZE, sark_structs
from rigsim.seams import rig_module
from .common import Ctl, rigcall, MC_MODULES, BUFFERS, TIMEOUTS

RIG_MODULES = MC_MODULES
COMPONENTS_REAL = [
    "MachineController.read/write/fill/read_struct_field/write_struct_field/"
    "read_vcpu_struct_field/write_vcpu_struct_field/read_across_link/"
    "write_across_link/get_software_version (scp_data_length)",
    "SCPConnection.read/write/send_scp/send_scp_burst", "SCPPacket",
    "consts.address_length_dtype", "struct_file.read_struct_file"]
COMPONENTS_STUB = ["UDP network/select/clock (simulated)",
                   "SpiNNaker machine: SC&MP read/write/fill/link_read/"
                   "link_write/sver on sparse byte memories (reference model)"]

ARENAS = [0x60001000, 0x6123f000, 0xe5001100, 0x00401000, 0x00000400,
          0x7ffff000]


def plan(tier, prop):
    quick = tier == "quick"
    return {
        "runs": 12000 if quick else 500000,
        "budget_s": 50 if quick else 800,
        "chunk": 40 if quick else 200,
        "rule": "each run = one seeded machine (1-4 chips, buffer size, "
                "window, n_tries, timeout, fault mix) and 1-30 memory "
                "operations, then a healed write+read-back; non-trivial = at "
                "least one operation completed; distinct = distinct abstract "
                "event traces (op kinds, command kinds, fault kinds, outcomes)",
        "expected_probes": ["seq_time_warp", "struct_definitions_replaced", "write_data_form", "array_values_as_bytes",
                            "multi_chunk", "unaligned", "zero_length", "top_of_address_space",
                            "op_timeout", "struct_field", "vcpu_field",
                            "link_op", "fill_aligned", "fill_unaligned",
                            "windowed", "direct_scp", "tcm_core_space"],
        "knob_ranges": {"buffer_size": BUFFERS, "window": "1-16",
                        "n_tries": "1-5", "timeout": TIMEOUTS,
                        "chips": "1-4", "ops": "1-30",
                        "length": "0 .. 5 buffers + 3"},
        "assumptions": [
            "requests reach the machine in the order sent; request delay/"
            "duplication is not injected (a stale copy of a write executing "
            "after a later write is inherent to SCP, DESIGN.md section 7.1)",
            "after an operation failed with an injected TimeoutError its "
            "target range may hold old or new bytes (checked per byte) and is "
            "then re-synchronised; everything else stays strict",
            "a machine executes a command at the instant its request is "
            "delivered"],
    }


class MemEngine(object):
    def __init__(self, world, tier):
        self.w = world
        self.t = world.tape
        self.tier = tier

    # -- helpers -------------------------------------------------------------
    def shadow_of(self, xy):
        return self.shadow[xy]

    def compare_all(self, what, relaxed=None):
        """Machine memory == shadow everywhere (relaxed: (xy, p, addr, old,
        new) range that may hold old-or-new bytes)."""
        w = self.w
        for xy, ch in self.m.chips.items():
            sh = self.shadow[xy]
            d = ch.mem.diff(sh, limit=50)
            for space, addr, got, exp in d:
                if relaxed is not None:
                    rxy, rp, ra, old, new = relaxed
                    if rxy == xy and ra <= addr < ra + len(new) and \
                            space == Memory.space_of(addr, rp):
                        if got in (old[addr - ra], new[addr - ra]):
                            continue
                w.violate("M", "after %s: chip %r %s byte at %#x is %#04x, "
                          "expected %#04x" % (
                              what, xy,
                              "shared" if space is None else "core %d" % space,
                              addr, got, exp),
                          kind="memory-differs", op=what.split("(")[0])
        if relaxed is not None:
            rxy, rp, ra, old, new = relaxed
            self.shadow[rxy].write(ra, self.m.chips[rxy].mem.read(
                ra, len(new), rp), rp)

    def pick_addr_len(self, aligned=False):
        t = self.t
        B = self.c.buffer_size
        arena = ARENAS[t.draw(len(ARENAS))]
        k = t.draw(5)
        off = k * B + [0, 0, 1, 2, 3, -1, -2, -3, 4, 5][t.draw(10)] + \
            (t.draw(B) if t.draw(3) == 0 else 0)
        addr = arena + 8 * B + off
        lk = t.draw_small(6, 0.5)
        n = lk * B + [0, 0, 1, 2, 3, -1, -2, -3, 4, 7][t.draw(10)] + \
            (t.draw(B) if t.draw(3) == 0 else 0)
        n = max(0, n)
        if aligned:
            addr &= ~3
            n &= ~3
        if t.draw(12) == 0:
            # up to the very last byte of the address space (never beyond)
            gap = [0, 0, 0, 1, 4, B][t.draw(6)]
            if aligned:
                gap &= ~3
            addr = min(0x100000000 - n - gap,
                       0xfffffffc if aligned else 0xffffffff)
            self.w.probe("top_of_address_space")
        return addr, n

    def pick_chip(self):
        xy = self.chip_list[self.t.draw(len(self.chip_list))]
        return xy

    # -- operations --------------------------------------------------------
    def run_op(self, name, target, fn, *args, **kw):
        """target: None or (xy, p, addr, newbytes) for writes."""
        c = self.c
        w = self.w
        w.trace.ev("op", name)
        w.ops.append(name)
        old = None
        if target is not None:
            xy, p, addr, new = target
            old = self.shadow[xy].read(addr, len(new), p)
        status, val = rigcall(w, (c.scp.TimeoutError,), fn, *args, **kw)
        if status == "exc":
            c.settle()
            w.probe("op_timeout")
            w.ops[-1] += " -> TimeoutError"
            if c.clean():
                w.violate("L", "%s raised TimeoutError although no fault is "
                          "active" % name, kind="clean-timeout",
                          op=name.split("(")[0])
            self.compare_all(name, None if target is None else
                             (target[0], target[1], target[2], old,
                              target[3]))
            return "exc", val
        if target is not None:
            xy, p, addr, new = target
            self.shadow[xy].write(addr, new, p)
        self.compare_all(name)
        w.ops[-1] += " -> ok"
        w.ops_completed += 1
        return "ok", val

    def op_write(self, direct=False):
        t = self.t
        xy = self.pick_chip()
        p = t.draw(len(self.m.chips[xy].cores))
        addr, n = self.pick_addr_len()
        data = t.bytes(n)
        self.note(addr, n, p)
        if direct:
            win = 1 + t.draw(16)
            self.w.probe("direct_scp")
            conn = self.c.mc.connections[None]
            name = "scp.write(%#x,%d,win=%d,%r,p=%d)" % (addr, n, win, xy, p)
            self.run_op(name, (xy, p, addr, data), conn.write,
                        self.c.buffer_size, win, xy[0], xy[1], p, addr, data)
        else:
            name = "write(%#x,%d,%r,p=%d)" % (addr, n, xy, p)
            # the bytes as the caller may hold them
            # (the documentation says `bytes`; a bytearray or a memoryview
            # of bytes slices and packs the same way)
            form = t.weighted([5, 1, 1])
            given = data
            if form == 1:
                given = bytearray(data)
            elif form == 2:
                given = memoryview(data)
            if form:
                self.w.probe("write_data_form")
                name += " as %s" % type(given).__name__
            self.run_op(name, (xy, p, addr, data), self.c.mc.write, addr,
                        given, xy[0], xy[1], p)

    def note(self, addr, n, p):
        w = self.w
        B = self.c.buffer_size
        if n > B:
            w.probe("multi_chunk")
        if addr % 4 or n % 4:
            w.probe("unaligned")
        if n == 0:
            w.probe("zero_length")
        if addr < 0x01000000 and p:
            w.probe("tcm_core_space")

    def op_read(self, direct=False):
        t = self.t
        xy = self.pick_chip()
        p = t.draw(len(self.m.chips[xy].cores))
        addr, n = self.pick_addr_len()
        self.note(addr, n, p)
        exp = self.shadow[xy].read(addr, n, p)
        if direct:
            win = 1 + t.draw(16)
            self.w.probe("direct_scp")
            conn = self.c.mc.connections[None]
            name = "scp.read(%#x,%d,win=%d,%r,p=%d)" % (addr, n, win, xy, p)
            st, val = self.run_op(name, None, conn.read, self.c.buffer_size,
                                  win, xy[0], xy[1], p, addr, n)
        else:
            name = "read(%#x,%d,%r,p=%d)" % (addr, n, xy, p)
            st, val = self.run_op(name, None, self.c.mc.read, addr, n, xy[0],
                                  xy[1], p)
        if st == "ok" and bytes(val) != exp:
            i = next((i for i in range(min(len(val), len(exp)))
                      if val[i] != exp[i]), min(len(val), len(exp)))
            self.w.violate("RD", "%s returned %d bytes, first difference at "
                           "offset %d (got %s expected %s)" % (
                               name, len(val), i, bytes(val[i:i + 4]).hex(),
                               exp[i:i + 4].hex()),
                           kind="read-differs", op=name.split("(")[0])

    def op_fill(self):
        t = self.t
        xy = self.pick_chip()
        p = t.draw(len(self.m.chips[xy].cores))
        aligned = bool(t.draw(2))
        addr, n = self.pick_addr_len(aligned=aligned)
        n = min(n, 3 * self.c.buffer_size)
        if addr % 4 == 0 and n % 4 == 0:
            self.w.probe("fill_aligned")
            word = t.edge(1 << 32)
            new = pystruct.pack("<I", word) * (n // 4)
            val = word
        else:
            self.w.probe("fill_unaligned")
            val = t.edge(256)
            new = bytes([val]) * n
        name = "fill(%#x,%#x,%d,%r,p=%d)" % (addr, val, n, xy, p)
        self.run_op(name, (xy, p, addr, new), self.c.mc.fill, addr, val, n,
                    xy[0], xy[1], p)

    def _fields(self, sname):
        st = sark_structs()[sname]
        return [f for f in st["fields"].values()]

    def _unpack(self, f, raw):
        unit = f.size // f.count if f.kind != "s" else f.size
        vals = []
        for i in range(f.length):
            chunk = raw[i * f.size:(i + 1) * f.size]
            if f.kind == "s":
                vals.append(chunk)
            elif f.kind == "b":
                v = int.from_bytes(chunk[:unit], "little")
                vals.append(v - (1 << (8 * unit)) if v >> (8 * unit - 1)
                            else v)
            else:
                vals.append(int.from_bytes(chunk[:unit], "little"))
        return vals[0] if f.length == 1 else tuple(vals)

    def own_struct_text(self):
        """A struct of the caller's own, appended to the bundled definitions:
        every pack code the file format has (signed and unsigned bytes, half
        words, words, fixed-size strings), arrays, gaps between fields."""
        t = self.t
        lines = ["", "name = cfg", "size = 256",
                 "base = %#x" % (0x60003000 + 4 * t.draw(64)), ""]
        off = 0
        for i in range(2 + t.draw(6)):
            code, unit = [("C", 1), ("c", 1), ("v", 2), ("V", 4),
                          ("A%d" % [1, 3, 8, 16, 21][t.draw(5)], 0)][t.draw(5)]
            if unit == 0:
                unit = int(code[1:])
                # (also arrays of fixed-size strings)
                count = [1, 1, 1, 2, 3][t.draw(5)]
            else:
                count = [1, 1, 2, 5][t.draw(4)]
                off = (off + unit - 1) // unit * unit
            off += [0, 0, 1, 4][t.draw(4)] * (unit if unit in (1, 2, 4)
                                              else 1)
            if off + unit * count > 200:
                break
            fname = "f%d" % i + ("[%d]" % count if count > 1 else "")
            lines.append("%-12s %-4s %#06x  %%d  0" % (fname, code, off))
            off += unit * count
        return ("\n".join(lines) + "\n").encode()

    def op_struct(self, write):
        t = self.t
        self.w.probe("struct_field")
        xy = self.pick_chip()
        sname, base = "sv", SV_BASE
        if self.own is not None and t.draw(2):
            sname, base = "cfg", self.own["base"]
            self.w.probe("own_struct_field")
            fields = list(self.own["fields"].values())
        else:
            fields = self._fields("sv")
        f = fields[t.draw(len(fields))]
        if f.name.startswith("__PAD"):
            f = fields[0]
        p = 0 if t.draw(3) else t.draw(len(self.m.chips[xy].cores))
        addr = base + f.offset
        n = f.size * f.length
        mc = self.c.mc
        if write:
            # (zero and all-ones are values like any other)
            # (but no all-ones into the system's own pointers, from which
            # later addresses are computed)
            raw = [t.bytes(n), t.bytes(n), t.bytes(n), t.bytes(n), bytes(n),
                   b"\xff" * n if sname != "sv" else bytes(n)][t.draw(6)]
            vals = self._unpack(f, raw)
            if f.length > 1 and f.kind != "s":
                # the elements as a tuple, a list - or, when they are small
                # non-negative numbers, a bytes object (a sequence of ints)
                k = t.draw(4)
                if k == 1:
                    vals = list(vals)
                elif k >= 2 and f.size > 1:
                    small = bytes(t.draw(256) for _ in range(f.length))
                    raw = b"".join(v.to_bytes(f.size // f.count, "little")
                                   for v in small)
                    vals = small if k == 2 else bytearray(small)
                    self.w.probe("array_values_as_bytes")
            name = "write_struct_field(%s.%s,%r,p=%d)" % (sname, f.name, xy,
                                                          p)
            self.run_op(name, (xy, p, addr, raw), mc.write_struct_field,
                        sname, f.name, vals, xy[0], xy[1], p)
        else:
            exp = self._unpack(f, self.shadow[xy].read(addr, n, p))
            name = "read_struct_field(%s.%s,%r,p=%d)" % (sname, f.name, xy, p)
            st, val = self.run_op(name, None, mc.read_struct_field, sname,
                                  f.name, xy[0], xy[1], p)
            if st == "ok" and val != exp:
                self.w.violate("RD", "%s returned %r, memory holds %r"
                               % (name, val, exp), kind="struct-differs",
                               field=f.name)

    def op_vcpu(self, write):
        t = self.t
        self.w.probe("vcpu_field")
        xy = self.pick_chip()
        fields = [f for f in self._fields("vcpu")
                  if f.length == 1 or f.kind == "s"]
        if t.draw(6) == 0:
            strs = [f for f in fields if f.kind == "s"]
            fields = strs or fields
        f = fields[t.draw(len(fields))]
        p = t.draw(len(self.m.chips[xy].cores))
        sh = self.shadow[xy]
        vb = self.m.sv_fields["vcpu_base"]
        base = int.from_bytes(sh.read(SV_BASE + vb.offset, 4), "little")
        addr = (base + VCPU_SIZE * p + f.offset) & 0xffffffff
        mc = self.c.mc
        if write:
            if f.kind == "s":
                # (a name that fills the field to its last byte is legal)
                n_txt = [f.size, f.size - 1, 0, 1][t.draw(4)] if t.draw(2) \
                    else t.draw(f.size + 1)
                txt = "".join(chr(97 + t.draw(26)) for _ in range(n_txt))
                raw = txt.encode().ljust(f.size, b"\0")
                val = txt
            else:
                raw = [t.bytes(f.size), t.bytes(f.size), t.bytes(f.size),
                       bytes(f.size), b"\xff" * f.size][t.draw(5)]
                val = self._unpack(f, raw)
            name = "write_vcpu_struct_field(%s,%r,p=%d)" % (f.name, xy, p)
            self.run_op(name, (xy, 0, addr, raw), mc.write_vcpu_struct_field,
                        f.name, val, xy[0], xy[1], p)
        else:
            raw = sh.read(addr, f.size, 0)
            if f.kind == "s":
                try:
                    exp = raw.strip(b"\0").decode("utf-8")
                except UnicodeDecodeError:
                    return
            else:
                exp = self._unpack(f, raw)
            name = "read_vcpu_struct_field(%s,%r,p=%d)" % (f.name, xy, p)
            st, val = self.run_op(name, None, mc.read_vcpu_struct_field,
                                  f.name, xy[0], xy[1], p)
            if st == "ok" and val != exp:
                self.w.violate("RD", "%s returned %r, memory holds %r"
                               % (name, val, exp), kind="vcpu-differs",
                               field=f.name)

    def op_link(self, write):
        t = self.t
        xy = self.pick_chip()
        ch = self.m.chips[xy]
        links = sorted(ch.working_links())
        if not links:
            return
        self.w.probe("link_op")
        link = links[t.draw(len(links))]
        far = self.m.neighbour(xy[0], xy[1], link)
        fxy = (far.x, far.y)
        addr, n = self.pick_addr_len(aligned=True)
        if addr < 0x01000000:
            addr += 0x60000000
        Links = self.Links
        if write:
            data = t.bytes(n)
            name = "write_across_link(%#x,%d,%r,link=%d)" % (addr, n, xy, link)
            self.run_op(name, (fxy, 0, addr, data),
                        self.c.mc.write_across_link, addr, data, xy[0], xy[1],
                        Links(link))
        else:
            exp = self.shadow[fxy].read(addr, n, 0)
            name = "read_across_link(%#x,%d,%r,link=%d)" % (addr, n, xy, link)
            st, val = self.run_op(name, None, self.c.mc.read_across_link,
                                  addr, n, xy[0], xy[1], Links(link))
            if st == "ok" and bytes(val) != exp:
                self.w.violate("RD", "%s returned wrong bytes" % name,
                               kind="link-read-differs")

    # -- run -------------------------------------------------------------
    def op_warp_read(self):
        """A windowed read during which the 16-bit sequence counter comes
        round to two neighbouring numbers that are still in use: the requests
        for the second and third block are lost once or more, and when the
        first command sent after the initial window-full arrives the counter
        is advanced - as 65 thousand answered commands would advance it - to
        just before those numbers.  Only on an otherwise quiet network (a
        late datagram from 65536 commands ago cannot exist in reality)."""
        t, w, c = self.t, self.w, self.c
        if not c.clean() or c.n_tries < 2 or (c.policy.active and
                                               c.policy.busy):
            return self.op_read(direct=True)
        B = c.buffer_size
        xy = self.pick_chip()
        win = 3 + t.draw(6)
        n = (win + 6 + t.draw(8)) * B - t.draw(B)
        addr = ARENAS[t.draw(len(ARENAS))] + 64 * B + t.draw(4)
        data = t.bytes(64) * (n // 64 + 1)
        self.m.chips[xy].mem.write(addr, data[:n])
        self.shadow[xy].write(addr, data[:n], 0)
        conn = c.mc.connections[None]
        seen = []
        lose = {1: 1 + t.draw(c.n_tries - 1), 2: 1 + t.draw(c.n_tries - 1)}
        warped = [False]

        def swallow(chip, r):
            if r.cmd != 2:
                return False
            if r.seq not in seen:
                seen.append(r.seq)
            idx = seen.index(r.seq)
            if idx in lose and lose[idx] > 0:
                lose[idx] -= 1
                w.fault("blackholed_request")
                return True
            if idx == win and not warped[0] and len(seen) > 2 and \
                    seen[2] == (seen[1] + 1) & 0xffff:
                warped[0] = True
                goal = (seen[1] - 2) & 0xffff
                for _ in range(70000):
                    if next(conn.seq) == goal:
                        break
                w.probe("seq_time_warp")
            return False
        self.m.swallow = swallow
        try:
            name = "scp.read(%#x,%d,win=%d,%r) with sequence warp" % (
                addr, n, win, xy)
            st, val = self.run_op(name, None, conn.read, B, win, xy[0],
                                  xy[1], 0, addr, n)
        finally:
            self.m.swallow = None
        if st == "ok" and bytes(val) != data[:n]:
            i = next((i for i in range(min(len(val), n))
                      if val[i] != data[i]), min(len(val), n))
            w.violate("RD", "%s returned %d bytes, first difference at "
                      "offset %d (got %s expected %s)" % (
                          name, len(val), i, bytes(val[i:i + 4]).hex(),
                          data[i:i + 4].hex()),
                      kind="read-differs", op="scp.read")

    def run(self):
        t = self.t
        w = self.w
        c = self.c = Ctl(w)
        width, height = 1 + t.draw(2), 1 + t.draw(2)
        n_cores = [18, 17, 5, 1][t.draw_small(4, 0.3)]
        m = self.m = c.build_machine(width=width, height=height,
                                     torus=bool(t.draw(2)), n_cores=n_cores)
        window = [None, 1, 2, 4, 7, 16][t.draw(6)]
        if t.draw(3) == 0:
            m.vary_layout()
            w.probe("per_chip_layout")
        # one run in three: the controller is given the caller's own struct
        # definitions (the bundled file plus one more struct)
        self.own = None
        mc_kw = {}
        if t.draw(3) == 0:
            import os
            with open(os.path.join(os.environ.get("VERIF_REPO", "/repo"),
                                   "rig", "boot", "sark.struct"), "rb") as f:
                self.bundled_struct_text = f.read()
                text = self.bundled_struct_text + self.own_struct_text()
            mc_kw["structs"] = rig_module(
                "rig.machine_control.struct_file").read_struct_file(text)
            self.own = wire.parse_struct_file(text)["cfg"]
            w.probe("own_struct_definitions")
        try:
            mc = c.start(materialise=True, **mc_kw)
            self.Links = rig_module("rig.links").Links
            if window is not None:
                mc._window_size = window
                if window > 1:
                    w.probe("windowed")
            self.chip_list = sorted(m.chips)
            self.shadow = {}
            for xy, ch in m.chips.items():
                sh = Memory()
                sh.pages = {k: bytearray(v) for k, v in ch.mem.pages.items()}
                self.shadow[xy] = sh
            w.ops.append("config %dx%d cores=%d window=%r %s"
                         % (width, height, n_cores, window, c.describe()))
            n_ops = t.op_count(1, 30)
            for _ in range(n_ops):
                t.next_segment()
                k = t.weighted([6, 6, 2, 2, 2, 1, 1, 1, 1, 1, 1, 1,
                                1 if self.own is not None else 0])
                if k == 12:
                    # the caller replaces the controller's struct definitions
                    # (another build of its software: other layout, other
                    # base address for the struct of its own)
                    text = self.bundled_struct_text + self.own_struct_text()
                    mc.structs = rig_module(
                        "rig.machine_control.struct_file").read_struct_file(
                            text)
                    self.own = wire.parse_struct_file(text)["cfg"]
                    w.probe("struct_definitions_replaced")
                    w.ops.append("mc.structs = <other definitions>")
                elif k == 11:
                    self.op_warp_read()
                elif k == 0:
                    self.op_write()
                elif k == 1:
                    self.op_read()
                elif k == 2:
                    self.op_fill()
                elif k == 3:
                    self.op_write(direct=True)
                elif k == 4:
                    self.op_read(direct=True)
                elif k == 5:
                    self.op_struct(True)
                elif k == 6:
                    self.op_struct(False)
                elif k == 7:
                    self.op_vcpu(True)
                elif k == 8:
                    self.op_vcpu(False)
                elif k == 9:
                    self.op_link(True)
                else:
                    self.op_link(False)
            # heal: one write + read-back must succeed
            c.heal()
            t.begin_tail()
            self.op_write()
            self.op_read()
        finally:
            c.close()
        return {"machine": "%dx%d" % (width, height), "window": window,
                "buffer": c.buffer_size}


def run(world, tier, prop):
    return MemEngine(world, tier).run()
