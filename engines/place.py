"""C02 - every placer returns a feasible, constraint-respecting placement or
fails with a documented error.

All seven placers x both annealing kernels under simulator-owned
nondeterminism: the PRNG stream (tape-seeded or adversarial), the wall clock
PythonKernel reads, cancellation through on_temperature_change at a drawn
step, vertex / chip orders.  Feasibility is judged by an independent checker
after every run_steps of a wrapping kernel, at every callback, at the
cancellation point and on the result.  (Weaker fit, stated in DESIGN.md: apart
from clock, cancellation and the move schedule this is a function of its
input.)
"""
import collections
import copy
import random as pyrandom

from rigsim.core import SimAbort
from rigsim.seams import Seams, rig_module
from .common import rigcall
from . import prgen, prcheck

RIG_MODULES = [
    "rig.place_and_route", "rig.place_and_route.place.sa",
    "rig.place_and_route.place.sa.algorithm",
    "rig.place_and_route.place.sa.python_kernel",
    "rig.place_and_route.place.sa.c_kernel",
    "rig.place_and_route.place.hilbert", "rig.place_and_route.place.rcm",
    "rig.place_and_route.place.breadth_first",
    "rig.place_and_route.place.sequential", "rig.place_and_route.place.rand",
    "rig.place_and_route.place.utils", "rig.place_and_route.constraints",
    "rig.place_and_route.exceptions", "rig.netlist"]
COMPONENTS_REAL = [
    "place.sa.place (algorithm.py) with PythonKernel and CKernel (rig_c_sa "
    "native code)", "place.hilbert / rcm / breadth_first / sequential / rand",
    "place.utils (reservations, same-chip merging)", "Machine, constraints"]
COMPONENTS_STUB = ["PRNG streams handed to the placers (tape-seeded and "
                   "adversarial)", "wall clock read by PythonKernel "
                   "(simulated, with jumps)", "on_temperature_change "
                   "callback (cancellation at a drawn step)"]
PLACERS = ["sa_c", "sa_python", "hilbert", "rcm", "breadth_first",
           "sequential", "rand"]


def plan(tier, prop):
    quick = tier == "quick"
    return {
        "runs": 150000 if quick else 5000000,
        "budget_s": 55 if quick else 800,
        "chunk": 500 if quick else 1000,
        "chunk_timeout_s": 900,
        "rule": "each run = one machine (dead chips, per-chip resource "
                "exceptions), one graph grown net by net (tape operations), "
                "one consistent constraint mix (location, same-chip chained/"
                "duplicated, global and per-chip reservations) and one placer "
                "configuration (placer x kernel x effort x PRNG stream x "
                "clock behaviour x cancellation step x orders); non-trivial "
                "= the placer returned or raised a documented error; "
                "distinct = distinct abstract event traces (placer, kernel "
                "steps, callbacks, outcome)",
        "expected_probes": ["no_working_chip",
                            "completeness_instance", "cancelled",
                            "adversarial_rng", "clock_jump_past_warn",
                            "kernel_steps_checked", "callback_checked",
                            "insufficient_resource", "same_chip_group",
                            "location", "reservation_per_chip",
                            "custom_vertex_order", "custom_chip_order",
                            "vertex_needing_nothing", "dead_chip",
                            "tight_multi_resource"] +
                           ["placer_" + p for p in PLACERS],
        "knob_ranges": {"machine": "1x1..8x8", "vertices": "0-40",
                        "effort": [0.0, 0.05, 0.3, 1.0],
                        "rng": ["seeded", "always-accept", "never-accept",
                                "extremes"], "placer": PLACERS},
        "assumptions": [
            "constraint sets are consistent: at most one location per "
            "same-chip group, located vertices on working chips, reservations "
            "inside the chip's range and disjoint",
            "the completeness clause is asserted only on instances that meet "
            "its premises (unit demand of one resource, no same-chip groups, "
            "located vertices fit, total free capacity suffices)",
            "termination: at most 20000 kernel run_steps calls per run "
            "(the temperature falls by >= 5 % per round) and a wall-clock "
            "watchdog"],
    }


class AdversarialRandom(pyrandom.Random):
    """A PRNG whose uniform variate is pinned: 0.0 = every move accepted,
    0.999.. = none; 'extremes' alternates between the ends of any range."""

    def __init__(self, seed, mode):
        pyrandom.Random.__init__(self, seed)
        self.mode = mode
        self.flip = 0

    def random(self):
        if self.mode == "always-accept":
            return 0.0
        if self.mode == "never-accept":
            return 0.9999999999
        self.flip ^= 1
        return 0.0 if self.flip else 0.9999999999

    def getrandbits(self, k):
        # defined so that integer draws (shuffle, choice, randrange) keep using
        # the bit generator instead of looping on the pinned random()
        return pyrandom.Random.getrandbits(self, k)

    def randint(self, a, b):
        if self.mode == "extremes":
            # an end of the range, chosen by the underlying generator (a
            # periodic choice would defeat rejection loops that terminate
            # with probability one for any real generator)
            k = pyrandom.Random.getrandbits(self, 2)
            if k < 2:
                return a if k else b
        return pyrandom.Random.randint(self, a, b)


class SimClock(object):
    """Stands in for the time module inside python_kernel."""

    def __init__(self, tape, world):
        self.now = 1.7e9
        self.jump_at = None
        self.calls = 0
        self.world = world

    def time(self):
        self.calls += 1
        self.now += 0.001
        if self.jump_at is not None and self.calls >= self.jump_at:
            self.now += 500.0
            self.jump_at = None
            self.world.probe("clock_jump_past_warn")
            self.world.fault("clock_jump_fwd")
        return self.now


class PlaceEngine(object):
    def __init__(self, world, tier):
        self.w = world
        self.t = world.tape
        self.tier = tier
        self.steps = 0

    # -- machine + graph ---------------------------------------------------
    def build(self):
        t, w = self.t, self.w
        par, cons = self.par, self.cons
        W, H = 1 + t.draw_small(8, 0.8), 1 + t.draw_small(8, 0.8)
        # "tight": few cores and little SDRAM per chip with small SDRAM
        # demands, so that swaps evict vertices and a second resource binds
        self.tight = t.draw(3) == 0
        if self.tight:
            cores = [2, 3, 4][t.draw(3)]
            sdram = [8, 16, 32][t.draw(3)]
        else:
            cores = [18, 18, 17, 8, 4, 2, 1][t.draw(7)]
            sdram = [100000, 100000, 1000, 0][t.draw(4)]
        base = collections.OrderedDict([(par.Cores, cores), (par.SDRAM, sdram),
                                        (par.SRAM, 1024)])
        # a machine described by its cores alone (chips can then be *full*)
        self.cores_only = t.draw(5) == 0
        if self.cores_only:
            base = collections.OrderedDict([(par.Cores, cores)])
            w.probe("cores_only_machine")
        exc = {}
        dead = set()
        for x in range(W):
            for y in range(H):
                k = t.draw(12)
                if k == 0 and W * H > 1:
                    dead.add((x, y))
                    w.probe("dead_chip")
                elif k == 1:
                    items = [(par.Cores, t.draw(cores + 1)),
                             (par.SDRAM, t.draw(sdram + 1)),
                             (par.SRAM, 1024)]
                    if self.cores_only:
                        items = items[:1]
                    # (a chip's own dict need not list the resources in the
                    # order of the machine's)
                    r = t.draw_small(3, 0.7)
                    items = items[r:] + items[:r]
                    if t.draw(4) == 0:
                        items.reverse()
                    exc[(x, y)] = dict(items)
        if len(dead) == W * H:
            dead.pop()
        if t.draw(40) == 0:
            # no working chip at all: nothing can be placed (and an empty
            # graph still can)
            dead = {(x, y) for x in range(W) for y in range(H)}
            exc = {}
            w.probe("no_working_chip")
        # dead links, each given in one direction only (a link may be listed
        # without its twin): singles, every link out of a chip, every link
        # into a chip, both.  Only placers that look at the machine's links
        # (chip orders) can be affected; placement must stay feasible and
        # complete whatever the links are.
        dead_links = set()
        if t.draw(3) == 0:
            Links = rig_module("rig.links").Links
            dirs = list(Links)
            vec = {d: d.to_vector() for d in dirs}
            for _ in range(1 + t.draw(3)):
                x, y = t.draw(W), t.draw(H)
                k = t.draw(4)
                if k == 0:
                    dead_links.add((x, y, dirs[t.draw(6)]))
                    continue
                for d in dirs:
                    if k in (1, 3):
                        dead_links.add((x, y, d))
                    if k in (2, 3):
                        dx, dy = vec[d]
                        dead_links.add(((x - dx) % W, (y - dy) % H, d))
            w.probe("dead_links_one_way")
        machine = par.Machine(W, H, base, exc, dead, dead_links)
        self.machine = machine
        self.mv = prcheck.MachineView(machine)

    def build_constraints(self, g, complete):
        t, w = self.t, self.w
        par, cons, mv = self.par, self.cons, self.mv
        out = []
        chips = mv.chips()
        vs = list(g.vertices_resources)
        # reservations: global (at the start of the range) and per chip
        free = {xy: dict(mv.resources(xy)) for xy in chips}
        if t.draw(2):
            k = 1
            if all(r.get(par.Cores, 0) >= k for r in free.values()):
                out.append(cons.ReserveResourceConstraint(par.Cores,
                                                          slice(0, k)))
                for r in free.values():
                    r[par.Cores] -= k
        for xy in chips:
            if t.draw(6) == 0 and free[xy].get(par.Cores, 0) >= 1:
                top = mv.resources(xy)[par.Cores]
                out.append(cons.ReserveResourceConstraint(
                    par.Cores, slice(top - 1, top), xy))
                free[xy][par.Cores] -= 1
                w.probe("reservation_per_chip")
        group_of = {}
        if not complete and vs:
            for _ in range(t.draw_small(4, 0.5)):
                members = [vs[t.draw(len(vs))]
                           for _ in range([1, 2, 2, 3, 4, 0][t.draw_small(6, 0.8)])]
                # (the group as a list, a tuple or a set)
                shape = [list, list, list, tuple, set, frozenset][t.draw(6)]
                out.append(cons.SameChipConstraint(shape(members)))
                g.same_chip.append(members)
                w.probe("same_chip_group")
                gid = object()
                merged = {group_of[v] for v in members if v in group_of}
                for v, gg in list(group_of.items()):
                    if gg in merged:
                        group_of[v] = gid
                for v in members:
                    group_of[v] = gid
        located_groups = set()
        n_loc = t.draw_small(5, 0.5)
        if t.draw(12) == 0:
            n_loc = 3 * len(vs)          # (nearly) every vertex located
        for _ in range(n_loc):
            if not vs or not chips:
                break
            v = vs[t.draw(len(vs))]
            if v in g.located:
                continue
            gid = group_of.get(v)
            if gid is not None:
                if gid in located_groups:
                    continue
                located_groups.add(gid)
            xy = chips[t.draw(len(chips))]
            if complete:
                # must fit on its chip
                need = g.vertices_resources[v]
                if any(free[xy].get(r, 0) < q for r, q in need.items()):
                    continue
                for r, q in need.items():
                    free[xy][r] -= q
            out.append(cons.LocationConstraint(v, xy))
            g.located[v] = xy
            w.probe("location")
        self.free_after = free
        return out

    # -- monitors ----------------------------------------------------------
    def judge(self, placements, where):
        # judged against what the caller asked for (copies taken before any
        # placer saw the constraint objects)
        probs = prcheck.check_placement(self.vr_ref, self.mv,
                                        self.constraints_ref, placements,
                                        self.cons)
        if probs:
            kind, msg = probs[0]
            self.w.violate("PL", "%s [%s]: %s" % (where, self.pname, msg),
                           kind=kind, placer=self.pname, at=where.split()[0])

    def wrap_kernel(self, real):
        eng = self

        class Wrapped(object):
            def __init__(self, vertices_resources, movable_vertices,
                         fixed_vertices, initial_placements, nets, machine,
                         random, **kw):
                self.vr = vertices_resources
                # the machine given to a kernel holds what is *left* after
                # the initial placement of the movable vertices
                self.cap = {xy: dict(machine[xy]) for xy in machine}
                self.movable = set(movable_vertices)
                for v in self.movable:
                    xy = tuple(initial_placements[v])
                    if xy in self.cap:
                        for r, q in vertices_resources[v].items():
                            self.cap[xy][r] = self.cap[xy].get(r, 0) + q
                self.k = real(vertices_resources, movable_vertices,
                              fixed_vertices, initial_placements, nets,
                              machine, random, **kw)
                self.check("initial placement")

            def check(self, where):
                eng.w.probe("kernel_steps_checked")
                pl = self.k.get_placements()
                used = {}
                for v in self.vr:
                    if v not in pl:
                        eng.w.violate("PL", "%s: kernel placement lacks a "
                                      "vertex" % where, kind="kernel-missing",
                                      placer=eng.pname, at="kernel")
                        return
                    if v in self.movable:
                        xy = tuple(pl[v])
                        if xy not in self.cap:
                            eng.w.violate("PL", "%s: kernel put a vertex on "
                                          "%r which is not a working chip"
                                          % (where, xy), kind="dead-chip",
                                          placer=eng.pname, at="kernel")
                            return
                        acc = used.setdefault(xy, {})
                        for r, q in self.vr[v].items():
                            acc[r] = acc.get(r, 0) + q
                for xy, acc in used.items():
                    for r, q in acc.items():
                        if q > self.cap[xy].get(r, 0):
                            eng.w.violate(
                                "PL", "%s: kernel state over capacity on %r "
                                "(%r of %r used, %r free)"
                                % (where, xy, q, r, self.cap[xy].get(r, 0)),
                                kind="over-capacity", placer=eng.pname,
                                at="kernel")

            def run_steps(self, num_steps, distance_limit, temperature):
                eng.steps += 1
                if eng.steps > 20000:
                    raise SimAbort("RUN-STEPS-BUDGET", "more than 20000 "
                                   "kernel run_steps calls")
                eng.w.trace.ev("steps")
                r = self.k.run_steps(num_steps, distance_limit, temperature)
                self.check("after run_steps #%d" % eng.steps)
                return r

            def get_placements(self):
                return self.k.get_placements()
        Wrapped.__name__ = "Wrapped" + real.__name__
        return Wrapped

    # -- run -------------------------------------------------------------
    def run(self):
        t, w = self.t, self.w
        par = self.par = rig_module("rig.place_and_route")
        self.cons = rig_module("rig.place_and_route.constraints")
        exc = rig_module("rig.place_and_route.exceptions")
        self.build()
        g = self.g = prgen.Graph(t)
        complete = t.draw(3) == 0
        n_ops = t.op_count(0, 16)
        g.sdram_max = 9 if self.tight else 2000
        for _ in range(n_ops):
            t.next_segment()
            prgen.add_net(t, g, par, max_fanout=6)
        t.begin_tail()
        for _ in range(t.draw_small(8, 0.6)):
            prgen.new_vertex(t, g, par, sdram_max=g.sdram_max)
        if self.tight:
            w.probe("tight_multi_resource")
        if complete:
            # unit demand of a single resource (or nothing)
            for v in g.vertices_resources:
                g.vertices_resources[v] = collections.OrderedDict(
                    [(par.Cores, 1)] if t.draw(5) else [])
        if self.cores_only:
            # vertices ask only for what the machine describes
            for v, res in g.vertices_resources.items():
                for k in list(res):
                    if k is not par.Cores:
                        del res[k]
        for v, res in g.vertices_resources.items():
            if not any(res.values()):
                w.probe("vertex_needing_nothing")
        self.constraints = self.build_constraints(g, complete)
        self.constraints_ref = []
        for c_ in self.constraints:
            cc = copy.copy(c_)
            if hasattr(cc, "vertices"):
                cc.vertices = list(c_.vertices)
            self.constraints_ref.append(cc)
        if complete:
            demand = sum(1 for v, r in g.vertices_resources.items()
                         if r.get(par.Cores) and v not in g.located)
            supply = sum(max(0, f.get(par.Cores, 0))
                         for f in self.free_after.values())
            # (a vertex, even one needing nothing, has to sit on some
            # working chip)
            complete = demand <= supply and (bool(self.free_after) or
                                             not g.vertices_resources)
            if complete and self.free_after and supply - demand <= 40 \
                    and t.draw(3) == 0:
                # fill the machine exactly, then a few vertices that need
                # nothing at all (they fit on full chips)
                w.probe("exact_fill_then_zero_need")
                for _ in range(supply - demand):
                    v = prgen.new_vertex(t, g, par, kind=0)
                    g.vertices_resources[v] = collections.OrderedDict(
                        [(par.Cores, 1)])
                for _ in range(1 + t.draw(3)):
                    v = prgen.new_vertex(t, g, par, kind=4)
                    g.vertices_resources[v] = collections.OrderedDict()
        if complete:
            w.probe("completeness_instance")
        self.vr_ref = collections.OrderedDict(
            (v, dict(r)) for v, r in g.vertices_resources.items())
        pname = self.pname = PLACERS[t.draw(len(PLACERS))]
        w.probe("placer_" + pname)
        kwargs = {}
        seams = Seams()
        cancel_at = None
        n_v = len(g.vertices_resources)
        try:
            if pname.startswith("sa"):
                fn = rig_module("rig.place_and_route.place.sa").place
                real = rig_module(
                    "rig.place_and_route.place.sa.c_kernel").CKernel \
                    if pname == "sa_c" else rig_module(
                        "rig.place_and_route.place.sa.python_kernel"
                    ).PythonKernel
                efforts = [0.0, 0.05, 0.3, 1.0]
                effort = efforts[t.draw(4)]
                if pname == "sa_python" and n_v > 14:
                    effort = min(effort, 0.05)
                mode = ["seeded", "seeded", "always-accept", "never-accept",
                        "extremes"][t.draw(5)]
                if mode == "seeded":
                    rng = prgen.seeded(t)
                else:
                    w.probe("adversarial_rng")
                    w.fault("adversarial_prng_stream")
                    rng = AdversarialRandom(t.subseed(), mode)
                kwargs = {"kernel": self.wrap_kernel(real), "random": rng,
                          "effort": effort}
                clock = SimClock(t, w)
                if t.draw(2):
                    clock.jump_at = 1 + t.draw(6)
                seams.set("rig.place_and_route.place.sa.python_kernel",
                          "time", clock)
                if t.draw(2):
                    cancel_at = 1 + t.draw(6)
                calls = [0]

                def on_change(iteration_count, placements, cost, r_accept,
                              temperature, distance_limit):
                    calls[0] += 1
                    w.probe("callback_checked")
                    w.trace.ev("callback")
                    self.judge(placements, "callback #%d" % calls[0])
                    if cancel_at is not None and calls[0] >= cancel_at:
                        w.probe("cancelled")
                        w.fault("cancellation")
                        return False
                    return [None, True][calls[0] % 2]
                kwargs["on_temperature_change"] = on_change
                if t.draw(4) == 0 and pname == "sa_python":
                    kwargs["kernel_kwargs"] = {"no_warn": True}
                desc = "effort=%g rng=%s cancel_at=%r" % (effort, mode,
                                                          cancel_at)
            else:
                fn = rig_module("rig.place_and_route.place." + pname).place
                desc = ""
                if pname == "rand":
                    kwargs = {"random": prgen.seeded(t)}
                elif pname == "hilbert":
                    kwargs = {"breadth_first": bool(t.draw(2))}
                elif pname == "sequential":
                    if t.draw(2):
                        order = list(g.vertices_resources)
                        prgen.seeded(t).shuffle(order)
                        kwargs["vertex_order"] = order
                        w.probe("custom_vertex_order")
                    if t.draw(2):
                        chips = self.mv.chips()
                        prgen.seeded(t).shuffle(chips)
                        if t.draw(2):
                            chips = chips + [(x, y) for x in range(
                                self.mv.width) for y in range(self.mv.height)
                                if (x, y) in self.mv.dead_chips]
                        if t.draw(3) == 0 and chips:
                            # a chip listed twice
                            chips = chips + chips[:1 + t.draw(2)]
                        kwargs["chip_order"] = chips
                        w.probe("custom_chip_order")
                elif pname == "breadth_first" and t.draw(2):
                    chips = self.mv.chips()
                    prgen.seeded(t).shuffle(chips)
                    kwargs["chip_order"] = chips
                    w.probe("custom_chip_order")
                desc = " ".join(sorted(kwargs))
            w.trace.ev("placer-%s-%dx%d-%dv-%dn-%dc" % (
                pname, self.mv.width, self.mv.height, n_v, len(g.nets),
                len(self.constraints)))
            w.ops.append("machine %dx%d dead=%d exc=%d | %s | placer=%s %s%s"
                         % (self.mv.width, self.mv.height,
                            len(self.mv.dead_chips), len(self.mv.exc),
                            g.describe(), pname, desc,
                            " COMPLETE" if complete else ""))
            status, val = rigcall(
                w, (exc.InsufficientResourceError,
                    exc.InvalidConstraintError),
                fn, g.vertices_resources, g.nets, self.machine,
                self.constraints, **kwargs)
        finally:
            seams.restore()
        if status == "exc":
            w.probe("insufficient_resource")
            w.trace.ev("raised-" + type(val).__name__)
            w.ops.append("-> %s: %s" % (type(val).__name__, val))
            if complete:
                w.violate("COMPLETE", "%s raised %s on an instance where "
                          "every vertex needs at most one unit of one "
                          "resource, there are no same-chip groups, located "
                          "vertices fit and the free capacity suffices"
                          % (pname, type(val).__name__), kind="completeness",
                          placer=pname)
        else:
            w.trace.ev("returned-%d" % len(val))
            self.judge(val, "result")
            w.ops.append("-> placement of %d vertices (%d kernel calls)"
                         % (len(val), self.steps))
        w.ops_completed += 1
        if t.draw(4) == 0:
            # the caller places the same problem again - same dicts, lists,
            # machine and constraint objects - with another (plain) placer
            p2 = ["hilbert", "sequential", "breadth_first", "rcm", "rand"][
                t.draw(5)]
            fn2 = rig_module("rig.place_and_route.place." + p2).place
            kw2 = {"random": prgen.seeded(t)} if p2 == "rand" else {}
            w.probe("second_placement_same_objects")
            w.trace.ev("second-placer-" + p2)
            w.ops.append("again, same objects | placer=%s" % p2)
            status, val = rigcall(
                w, (exc.InsufficientResourceError,
                    exc.InvalidConstraintError),
                fn2, g.vertices_resources, g.nets, self.machine,
                self.constraints, **kw2)
            if status == "exc":
                w.ops.append("-> %s: %s" % (type(val).__name__, val))
                if complete:
                    w.violate("COMPLETE", "%s (second placement of the same "
                              "problem) raised %s on an instance every placer "
                              "must solve" % (p2, type(val).__name__),
                              kind="completeness", placer=p2)
            else:
                self.judge(val, "second placement")
                w.ops.append("-> placement of %d vertices" % len(val))
        return {"placer": pname, "steps": self.steps}


def run(world, tier, prop):
    return PlaceEngine(world, tier).run()
