"""C10 - routing entries installed in a chip's router are the entries given.

Part B (simulation): load_routing_tables, load_routing_table_entries,
get_routing_table_entries, clear_routing_table_entries against the simulated
router (pre-fragmented free list, allocation failure natural and injected, SCP
faults).  Part A (pure, stated as such in DESIGN.md): generated routing-tree
sets -> routing_tree_to_tables compared with an independent per-chip fold; the
tables produced in part A are loaded through part B.
"""
import collections

from rigsim.machine import N_RTR, RouterEntry
from rigsim.seams import rig_module
from .common import Ctl, rigcall, MC_MODULES, TIMEOUTS

RIG_MODULES = MC_MODULES + ["rig.routing_table", "rig.routing_table.utils",
                            "rig.place_and_route.routing_tree"]
COMPONENTS_REAL = [
    "MachineController.load_routing_tables/load_routing_table_entries/"
    "get_routing_table_entries/clear_routing_table_entries/read/write/"
    "read_struct_field, unpack_routing_table_entry",
    "rig.routing_table.utils.routing_tree_to_tables, RoutingTableEntry, "
    "Routes, MultisourceRouteError", "RoutingTree.traverse", "SCPConnection"]
COMPONENTS_STUB = ["UDP network/select/clock (simulated)",
                   "SpiNNaker machine: router (1024 entries), router-entry "
                   "allocator/free list, memory-mapped router copy, staging "
                   "buffer, alloc_free/router commands (reference model)"]
BUFFERS = [32, 64, 100, 128, 248, 256, 512]
LINK_VEC = [(1, 0), (1, 1), (0, 1), (-1, 0), (-1, -1), (0, -1)]


def plan(tier, prop):
    quick = tier == "quick"
    return {
        "runs": 6000 if quick else 300000,
        "budget_s": 50 if quick else 800,
        "chunk": 20 if quick else 100,
        "rule": "each run = a generated set of routing trees folded "
                "independently and compared with routing_tree_to_tables, then "
                "1-8 router operations (load tables incl. those just "
                "generated, read back, clear) on a simulated machine whose "
                "routers start pre-fragmented, then a healed load+read-back; "
                "non-trivial = at least one router operation completed; "
                "distinct = distinct abstract event traces",
        "expected_probes": ["deep_tree", "equal_tree_rebuilt", "same_tables_reloaded",
                            "alloc_failed_natural", "alloc_failed_injected",
                            "multisource_error", "shared_keymask_merge", "numpy_keys", "extreme_key_mask", "routing_tree_subclass",
                            "empty_table", "big_table", "all_route_bits",
                            "clear", "readback", "op_timeout",
                            "leaf_without_route", "fragmented_start"],
        "knob_ranges": {"buffer_size": BUFFERS, "entries": "0-1024",
                        "trees": "0-12 on up to 5x5 chips",
                        "app_id": "1-255", "timeout": TIMEOUTS},
        "assumptions": [
            "a lost alloc reply may leak one block (the retransmission "
            "allocates again): allowed", "for a zero-length table either "
            "outcome (router error or success) is accepted",
            "after an injected TimeoutError only 'entries outside blocks of "
            "this application are untouched' is judged",
            "routing trees given to routing_tree_to_tables are continuous and "
            "visit each chip at most once (documented precondition)"],
    }


class RtrEngine(object):
    def __init__(self, world, tier):
        self.w = world
        self.t = world.tape

    # ------------------------------------------------------------------
    # Part A: trees -> tables
    # ------------------------------------------------------------------
    def gen_tree(self, W, H, max_nodes):
        """Random tree over the grid: -> (RoutingTree root, list of
        (in_dir, xy, out_dirs))."""
        t = self.t
        RT = self.RoutingTree
        sub_kind = t.weighted([6, 1, 1])
        if sub_kind:
            # the caller's own subclass of the public RoutingTree class, for
            # every node or for every other one
            class AnnotatedTree(self.RoutingTree):
                note = "caller data"
            self.w.probe("routing_tree_subclass")
            flip = [0]

            def RT(xy, _base=self.RoutingTree):
                flip[0] += 1
                return AnnotatedTree(xy) if sub_kind == 1 or flip[0] % 2 \
                    else _base(xy)
        Routes = self.Routes
        root_xy = (t.draw(W), t.draw(H))
        visited = {root_xy}
        root = RT(root_xy)
        nodes = [(None, root)]
        frontier = [root]
        budget = t.draw(max_nodes + 1)
        while frontier and budget > 0:
            node = frontier.pop(t.draw(len(frontier)))
            x, y = node.chip
            for link in range(6):
                if budget <= 0:
                    break
                if t.draw(3):
                    continue
                dx, dy = LINK_VEC[link]
                nxy = ((x + dx) % W, (y + dy) % H) if self.torus else \
                    (x + dx, y + dy)
                if not (0 <= nxy[0] < W and 0 <= nxy[1] < H):
                    continue
                if nxy in visited:
                    continue
                visited.add(nxy)
                child = RT(nxy)
                node.children.append((Routes(link), child))
                nodes.append((link, child))
                frontier.append(child)
                budget -= 1
        # leaves: vertices routed to cores, links (endpoints) or None
        for _d, node in nodes:
            k = t.draw_small(4, 0.4) if node.children else 1 + t.draw(3)
            for i in range(k):
                kind = t.weighted([6, 1, 1])
                if kind == 0:
                    r = Routes.core(t.draw(18))
                elif kind == 1:
                    r = Routes(t.draw(6))
                    # a terminating vertex on a link the tree also follows is
                    # fine (same direction bit)
                else:
                    r = None
                    self.w.probe("leaf_without_route")
                node.children.append((r, "vtx%d" % t.draw(1000)))
            if t.draw(2):
                # order of children is not significant
                node.children.reverse()
        return root, nodes

    def gen_snake(self, W, H, length):
        """One long unbranched route winding over the rows of the machine
        (a legal tree is as deep as its longest route), with a few leaves on
        the way and one at the end."""
        t = self.t
        RT, Routes = self.RoutingTree, self.Routes
        path = []
        x, y, step = 0, 0, 1
        while len(path) < length and y < H:
            path.append((x, y))
            if 0 <= x + step < W:
                x += step
            else:
                y += 1
                step = -step
        objs = [RT(xy) for xy in path]
        nodes = [(None, objs[0])]
        for i in range(1, len(path)):
            (ax, ay), (bx, by) = path[i - 1], path[i]
            link = LINK_VEC.index((bx - ax, by - ay))
            objs[i - 1].children.append((Routes(link), objs[i]))
            nodes.append((link, objs[i]))
        for i in sorted({len(path) - 1} | {t.draw(len(path))
                                           for _ in range(t.draw(4))}):
            objs[i].children.append((Routes.core(1 + t.draw(17)),
                                     "vtx%d" % i))
        return objs[0], nodes

    def rebuild_tree(self, tree):
        """A structurally equal tree made of new objects, the children of
        each node in a drawn other order."""
        t = self.t
        root, _nodes = tree
        new_root = self.RoutingTree(root.chip)
        nodes = [(None, new_root)]
        stack = [(root, new_root)]
        while stack:
            old, new = stack.pop()
            kids = list(old.children)
            k = t.draw(3)
            if k == 0:
                kids.reverse()
            elif k == 1 and len(kids) > 1:
                r = 1 + t.draw(len(kids) - 1)
                kids = kids[r:] + kids[:r]
            else:
                kids.sort(key=lambda ro: (-1 if ro[0] is None else
                                          -int(ro[0])))
            for r, obj in kids:
                if isinstance(obj, self.RoutingTree):
                    child = self.RoutingTree(obj.chip)
                    new.children.append((r, child))
                    nodes.append((int(r), child))
                    stack.append((obj, child))
                else:
                    new.children.append((r, obj))
        return new_root, nodes

    def join_tree(self, tree, W, H):
        """A new tree whose root is a chip next to some non-root node N of
        ``tree`` and which continues with N's subtree (same objects)."""
        t = self.t
        _root, nodes = tree
        if len(nodes) < 2:
            return None
        in_link, n = nodes[1 + t.draw(len(nodes) - 1)]
        # nodes of the subtree below n, with the links they are entered by
        sub = []
        stack = [(None, n)]
        while stack:
            d, node = stack.pop()
            sub.append((d, node))
            for r, obj in node.children:
                if isinstance(obj, self.RoutingTree):
                    stack.append((int(r), obj))
        chips = {node.chip for _d, node in sub}
        for link in range(6):
            dx, dy = LINK_VEC[link]
            x, y = n.chip[0] - dx, n.chip[1] - dy
            if self.torus:
                x, y = x % W, y % H
            if not (0 <= x < W and 0 <= y < H) or (x, y) in chips:
                continue
            if link == in_link and t.draw(2):
                continue
            root = self.RoutingTree((x, y), [(self.Routes(link), n)])
            return root, [(None, root), (link, n)] + sub[1:]
        return None

    def fold(self, trees, net_keys):
        """Independent per-chip fold.  -> (tables dict or None, conflict)"""
        acc = {}
        conflict = False
        for net, (root, nodes) in trees.items():
            km = net_keys[net]
            for in_link, node in nodes:
                outs = frozenset(int(r) for r, _o in node.children
                                 if r is not None)
                src = None if in_link is None else (in_link + 3) % 6
                slot = acc.setdefault(node.chip, {})
                if km in slot:
                    if slot[km][0] != outs:
                        conflict = True
                    slot[km][1].add(src)
                else:
                    slot[km] = (outs, {src})
        return acc, conflict

    def part_a(self):
        t, w = self.t, self.w
        W, H = 1 + t.draw(5), 1 + t.draw(5)
        self.torus = bool(t.draw(2))
        n_trees = t.draw_small(13, 0.75)
        snake = t.weighted([40, 1])
        if snake:
            # a big machine and a route of a thousand hops and more
            W, H = 40 + t.draw(25), 40 + t.draw(25)
            n_trees = max(n_trees, 1)
            w.probe("deep_tree")
        # keys and masks as the caller's 32-bit integers of whatever type
        # (e.g. elements of a numpy key array)
        import numpy
        kt = [int, numpy.uint32, numpy.int64, numpy.uint64][
            t.weighted([6, 2, 1, 1])]
        if kt is not int:
            w.probe("numpy_keys")
        trees = {}
        net_keys = {}
        kms = []
        for i in range(n_trees):
            net = "net%d" % i
            if kms and t.draw(3) == 0:
                # share key and mask with an earlier tree
                j = t.draw(len(kms))
                net_keys[net] = kms[j]
                mode = t.draw(4)
                if mode == 3:
                    # an equal tree built separately, its children listed in
                    # another order (order is not significant)
                    trees[net] = self.rebuild_tree(trees["net%d" % j])
                    kms.append(kms[j])
                    w.probe("equal_tree_rebuilt")
                    continue
                if mode == 0:
                    # the very same tree again
                    trees[net] = trees["net%d" % j]
                    kms.append(kms[j])
                    continue
                if mode == 1:
                    # a second source joining an existing tree part-way
                    joined = self.join_tree(trees["net%d" % j], W, H)
                    if joined is not None:
                        trees[net] = joined
                        kms.append(kms[j])
                        continue
            else:
                mask = [0xffffffff, 0xffff0000, 0xfffffff0, 0x0,
                        t.draw(1 << 32)][t.draw(5)]
                net_keys[net] = (kt(t.draw(1 << 32) & mask), kt(mask))
            kms.append(net_keys[net])
            if snake and i == 0:
                trees[net] = self.gen_snake(W, H, 1100 + t.draw(1500))
                continue
            trees[net] = self.gen_tree(W, H, 10)
        routes = {net: tr[0] for net, tr in trees.items()}
        exp, conflict = self.fold(trees, net_keys)
        w.trace.ev("op", "tables")
        w.ops.append("routing_tree_to_tables(%d trees on %dx%d%s)"
                     % (n_trees, W, H, " torus" if self.torus else ""))
        # both arguments are dictionaries keyed by net: nothing says they
        # list the nets in the same order, or that keys exist only for the
        # nets that were routed
        given_keys = net_keys
        if t.draw(3) == 0:
            w.probe("net_keys_other_order")
            items = list(net_keys.items())
            k = t.draw(3)
            if k == 0:
                items.reverse()
            elif k == 1 and items:
                r = 1 + t.draw(len(items))
                items = items[r:] + items[:r]
            for i in range(t.draw(3)):
                items.insert(t.draw(len(items) + 1),
                             ("unrouted%d" % i, (kt(t.draw(1 << 32)),
                                                 kt(0xffffffff))))
            given_keys = dict(items)
        status, val = rigcall(w, (self.rt.MultisourceRouteError,),
                              self.rtutils.routing_tree_to_tables, routes,
                              given_keys)
        if status == "exc":
            w.probe("multisource_error")
            w.ops[-1] += " -> MultisourceRouteError"
            if not conflict:
                w.violate("TT", "MultisourceRouteError raised but no two "
                          "trees with equal key and mask fork differently on "
                          "any chip", kind="spurious-multisource")
            return {}
        if conflict:
            w.violate("TT", "two trees with equal key and mask fork "
                      "differently on a chip but no MultisourceRouteError was "
                      "raised", kind="missed-multisource")
        tables = dict(val)
        if set(tables) != set(exp):
            w.violate("TT", "tables produced for chips %r, trees visit %r"
                      % (sorted(set(tables) ^ set(exp))[:5], len(exp)),
                      kind="table-chips")
        for xy, entries in tables.items():
            seen = {}
            for e in entries:
                km = (e.key, e.mask)
                if km in seen:
                    w.violate("TT", "chip %r has two entries for key %#x mask "
                              "%#x" % (xy, e.key, e.mask), kind="dup-entry")
                seen[km] = e
            want = exp.get(xy, {})
            if set(seen) != set(want):
                w.violate("TT", "chip %r: entries for %d key/masks, expected "
                          "%d" % (xy, len(seen), len(want)),
                          kind="table-keys")
            for km, (outs, ins) in want.items():
                e = seen.get(km)
                if e is None:
                    continue
                if len(ins) > 1:
                    w.probe("shared_keymask_merge")
                if {int(r) for r in e.route} != set(outs):
                    w.violate("TT", "chip %r key %#x: route %r, the trees "
                              "leave by %r" % (xy, km[0], sorted(
                                  int(r) for r in e.route), sorted(outs)),
                              kind="entry-route")
                got_src = {None if s is None else int(s) for s in e.sources}
                if got_src != ins:
                    w.violate("TT", "chip %r key %#x: sources %r, the trees "
                              "enter from %r" % (xy, km[0], got_src, ins),
                              kind="entry-sources")
        w.ops[-1] += " -> %d chips" % len(tables)
        w.ops_completed += 1
        if snake:
            # part B gets the corner of the machine only
            tables = {xy: e for xy, e in tables.items()
                      if xy[0] < 4 and xy[1] < 4}
        return tables

    # ------------------------------------------------------------------
    # Part B: router
    # ------------------------------------------------------------------
    def router_snapshot(self, ch):
        return ([None if e is None else (e.key, e.mask, e.route, e.app)
                 for e in ch.router], sorted(map(tuple, ch.rtr_blocks)))

    def gen_entries(self):
        t = self.t
        RTE, Routes = self.rt.RoutingTableEntry, self.Routes
        style = t.weighted([1, 5, 2, 1])
        if style == 0:
            n = 0
            self.w.probe("empty_table")
        elif style == 1:
            n = 1 + t.draw_small(40, 0.85)
        elif style == 2:
            n = 1 + t.draw(300)
        else:
            n = [1000, 1023, 1024, 600][t.draw(4)]
            self.w.probe("big_table")
        entries = []
        for i in range(n):
            if t.draw(8) == 0:
                route = set(Routes)
                self.w.probe("all_route_bits")
            elif n > 50:
                route = {Routes((i * 7 + n) % 24)}
            else:
                route = {Routes(t.draw(24)) for _ in range(t.draw(5))}
            if n > 50:
                key, mask = (i * 2654435761) & 0xffffffff, 0xffffffff
            else:
                mask = [0xffffffff, 0xffff0000, 0, t.edge(1 << 32)][t.draw(4)]
                key = t.edge(1 << 32)
                if t.draw(6) == 0:
                    # extremes of both words together
                    key = [0xffffffff, 0, 0xffffffff, 0x80000000][t.draw(4)]
                    mask = [0, 0, 0xffffffff, 0x80000000][t.draw(4)]
                    self.w.probe("extreme_key_mask")
            entries.append(RTE(route, key, mask))
        return entries

    def check_loaded(self, ch, before, entries, app_id, label):
        """After a successful load: entries at consecutive indices inside a
        block of that app; everything else untouched."""
        w = self.w
        old_entries, old_blocks = before
        new_blocks = [b for b in map(tuple, ch.rtr_blocks)
                      if b not in old_blocks]
        want = [(e.key, e.mask, sum(1 << int(r) for r in e.route))
                for e in entries]
        found_at = None
        for first, count, app in new_blocks:
            if app != app_id:
                continue
            got = [None if ch.router[i] is None else
                   (ch.router[i].key, ch.router[i].mask, ch.router[i].route)
                   for i in range(first, first + len(want))]
            if got == want and count >= len(want):
                found_at = (first, count)
        if found_at is None and want:
            w.violate("RT", "%s returned normally but no block allocated for "
                      "app %d holds the %d entries given, in order (new "
                      "blocks %r)" % (label, app_id, len(want), new_blocks),
                      kind="entries-not-installed")
        inside = set()
        for first, count, app in new_blocks:
            inside.update(range(first, first + count))
        loaded_idx = set()
        if found_at:
            loaded_idx = set(range(found_at[0], found_at[0] + len(want)))
        for i in range(N_RTR):
            e = ch.router[i]
            now = None if e is None else (e.key, e.mask, e.route, e.app)
            if i in loaded_idx:
                if now is not None and now[3] != app_id:
                    w.violate("RT", "entry %d installed under app %d, "
                              "requested %d" % (i, now[3], app_id),
                              kind="entry-app")
                continue
            if now != old_entries[i] and i not in inside:
                w.violate("RT", "%s changed router entry %d, which is outside "
                          "the block allocated for it" % (label, i),
                          kind="other-entry-changed")
            if now != old_entries[i] and i in inside and found_at:
                # (a retransmitted command rewrites the same indices; a
                # leaked block of a repeated allocation stays empty - so even
                # under faults nothing else may be written)
                w.violate("RT", "%s wrote router entry %d, which is not one "
                          "of the entries given (the table is installed at "
                          "%d..%d)" % (label, i, found_at[0],
                                       found_at[0] + len(want) - 1),
                          kind="extra-entry-written")

    def op_load(self, tables=None, heal=False):
        t, w, c, m = self.t, self.w, self.c, self.m
        app_id = 1 + t.edge(255)
        if getattr(self, "last_app_id", None) is not None and t.draw(2):
            # the same application loads more tables later
            app_id = self.last_app_id
        self.last_app_id = app_id
        multi = tables is not None
        if not multi and not heal and len(self.chip_list) > 1 and \
                t.draw(3) == 0:
            # one call loading several chips (dict order = loading order)
            multi = True
            tables = collections.OrderedDict()
            for _ in range(2 + t.draw(3)):
                xy = self.chip_list[t.draw(len(self.chip_list))]
                if xy not in tables:
                    tables[xy] = self.gen_entries()[:30]
            w.probe("several_chips_in_one_call")
        if tables is None and not heal and \
                getattr(self, "last_tables", None) and t.draw(5) == 0:
            # the very tables of an earlier load again (a re-run), after the
            # machine's staging buffer - scratch space that loading an
            # application uses too - has held other things
            tables = self.last_tables
            multi = len(tables) > 1
            w.probe("same_tables_reloaded")
            for ch in m.chips.values():
                ch.mem.write(m.sdram_sys, t.bytes(64) * 8)
        if tables is None:
            xy = self.chip_list[t.draw(len(self.chip_list))]
            tables = {xy: self.gen_entries() if not heal else
                      self.gen_entries()[:50] or self.gen_entries_nonempty()}
        self.last_tables = tables
        before = {xy: self.router_snapshot(m.chips[xy]) for xy in m.chips}
        inject = not heal and t.chance(0.1)
        self.inject_fail = inject
        # (in a several-chip call the allocation may fail on any one chip,
        # after others have been loaded)
        self.inject_chip = list(tables)[t.draw(len(tables))] \
            if inject and len(tables) > 1 else None
        if inject:
            w.fault("alloc_failure_injected")
        label = "load(%s, app=%d)" % (
            ", ".join("%r:%d" % (xy, len(es)) for xy, es in
                      sorted(tables.items())), app_id)
        w.trace.ev("op", "load")
        w.ops.append(label)
        natural = any(len(es) > m.chips[xy].rtr_largest_free()
                      for xy, es in tables.items())
        if multi or t.draw(2):
            fn, args = c.mc.load_routing_tables, (tables, app_id)
        else:
            (xy, es), = tables.items()
            fn, args = c.mc.load_routing_table_entries, (es, xy[0], xy[1],
                                                         app_id)
        status, val = rigcall(w, (c.scp.TimeoutError,
                                  c.mcmod.SpiNNakerRouterError), fn, *args)
        self.inject_fail = False
        if status != "ok":
            c.settle()
        if status == "ok":
            for xy, es in tables.items():
                self.check_loaded(m.chips[xy], before[xy], es, app_id, label)
            for xy in m.chips:
                if xy not in tables and \
                        self.router_snapshot(m.chips[xy]) != before[xy]:
                    w.violate("RT", "%s changed the router of chip %r which "
                              "has no table" % (label, xy),
                              kind="other-chip-changed")
            if natural and all(len(es) for es in tables.values()):
                w.violate("RT", "load returned normally although a table is "
                          "larger than the largest free block",
                          kind="overfull-accepted")
            w.ops[-1] += " -> ok"
        elif isinstance(val, c.mcmod.SpiNNakerRouterError):
            if inject:
                w.probe("alloc_failed_injected")
            if natural:
                w.probe("alloc_failed_natural")
            failed_xy = val.chip
            empty = [xy for xy, es in tables.items() if not es]
            if not (inject or natural or failed_xy in empty):
                if not (c.policy.active and c.policy.rates):
                    w.violate("RT", "SpiNNakerRouterError for chip %r although "
                              "%d entries are free there"
                              % (failed_xy, m.chips[failed_xy]
                                 .rtr_largest_free()), kind="spurious-error")
            # installs nothing on the failing chip
            ch = m.chips.get(failed_xy)
            if ch is not None:
                now = self.router_snapshot(ch)
                if now[0] != before[failed_xy][0]:
                    w.violate("RT", "SpiNNakerRouterError raised but router "
                              "entries of chip %r changed" % (failed_xy,),
                              kind="error-but-installed")
                if not (c.policy.active and c.policy.rates) and \
                        now[1] != before[failed_xy][1]:
                    w.violate("RT", "SpiNNakerRouterError raised but a block "
                              "stayed allocated on chip %r" % (failed_xy,),
                              kind="error-but-allocated")
            # whatever the routers held before the call is still there (on
            # the chips loaded before the failing one too)
            for xy, ch2 in m.chips.items():
                now2 = self.router_snapshot(ch2)[0]
                for i in range(N_RTR):
                    if before[xy][0][i] is not None and \
                            now2[i] != before[xy][0][i]:
                        w.violate("RT", "SpiNNakerRouterError for chip %r, "
                                  "and entry %d of chip %r - installed "
                                  "before this call - is gone or changed"
                                  % (failed_xy, i, xy),
                                  kind="error-removed-earlier-entries")
            w.ops[-1] += " -> SpiNNakerRouterError%r" % (failed_xy,)
        else:
            w.probe("op_timeout")
            if heal or c.clean():
                w.violate("L", "load raised TimeoutError with no fault "
                          "active", kind="clean-timeout")
            # entries outside blocks of this app untouched
            for xy, ch in m.chips.items():
                own = set()
                for first, count, app in ch.rtr_blocks:
                    if app == app_id:
                        own.update(range(first, first + count))
                for i in range(N_RTR):
                    e = ch.router[i]
                    now = None if e is None else (e.key, e.mask, e.route,
                                                  e.app)
                    if now != before[xy][0][i] and i not in own:
                        w.violate("RT", "failed load changed entry %d of chip "
                                  "%r outside its own blocks" % (i, xy),
                                  kind="other-entry-changed")
            w.ops[-1] += " -> TimeoutError"
        w.ops_completed += 1
        return status == "ok"

    def gen_entries_nonempty(self):
        return [self.rt.RoutingTableEntry({self.Routes(3)}, 0x1234,
                                          0xffffffff)]

    def op_readback(self):
        t, w, c, m = self.t, self.w, self.c, self.m
        xy = self.chip_list[t.draw(len(self.chip_list))]
        ch = m.chips[xy]
        w.probe("readback")
        w.trace.ev("op", "readback")
        w.ops.append("get_routing_table_entries%r" % (xy,))
        status, val = rigcall(w, (c.scp.TimeoutError,),
                              c.mc.get_routing_table_entries, xy[0], xy[1])
        if status == "exc":
            c.settle()
            w.probe("op_timeout")
            if c.clean():
                w.violate("L", "read-back timed out with no fault active",
                          kind="clean-timeout")
            w.ops[-1] += " -> TimeoutError"
            return
        if len(val) != N_RTR:
            w.violate("RB", "read-back returned %d entries" % len(val),
                      kind="readback-length")
        for i, got in enumerate(val[:N_RTR]):
            e = ch.router[i]
            if e is None or (e.route & 0xff000000) == 0xff000000:
                if got is not None:
                    w.violate("RB", "read-back reports an entry at free index "
                              "%d" % i, kind="readback-free")
                continue
            if got is None:
                w.violate("RB", "read-back reports index %d free; the router "
                          "holds key %#x" % (i, e.key), kind="readback-missing")
                continue
            rte, app, core = got
            route_bits = sum(1 << int(r) for r in rte.route)
            if (rte.key, rte.mask, route_bits, app) != (
                    e.key, e.mask, e.route & 0xffffff, e.app & 0xff):
                w.violate("RB", "read-back of index %d gives key %#x mask %#x "
                          "route %#x app %d; the router holds %#x %#x %#x %d"
                          % (i, rte.key, rte.mask, route_bits, app, e.key,
                             e.mask, e.route, e.app), kind="readback-differs")
            if core != (e.core & 0xf):
                w.violate("RB", "read-back of index %d says the entry was "
                          "installed by core %r; the router copy records "
                          "core %d" % (i, core, e.core & 0xf),
                          kind="readback-core")
        w.ops[-1] += " -> ok"
        w.ops_completed += 1

    def op_clear(self):
        t, w, c, m = self.t, self.w, self.c, self.m
        xy = self.chip_list[t.draw(len(self.chip_list))]
        ch = m.chips[xy]
        apps = sorted({b[2] for b in ch.rtr_blocks}) or [66]
        app = apps[t.draw(len(apps))]
        w.probe("clear")
        before = self.router_snapshot(ch)
        w.trace.ev("op", "clear")
        w.ops.append("clear_routing_table_entries(%r, app=%d)" % (xy, app))
        status, val = rigcall(w, (c.scp.TimeoutError,),
                              c.mc.clear_routing_table_entries, xy[0], xy[1],
                              app)
        if status == "exc":
            c.settle()
            w.ops[-1] += " -> TimeoutError"
            return
        for i in range(N_RTR):
            e = ch.router[i]
            now = None if e is None else (e.key, e.mask, e.route, e.app)
            was = before[0][i]
            if was is not None and was[3] == app:
                if now is not None:
                    w.violate("CL", "entry %d of app %d still installed after "
                              "clear" % (i, app), kind="clear-left")
            elif now != was:
                w.violate("CL", "clear of app %d changed entry %d of another "
                          "application" % (app, i), kind="clear-other")
        w.ops[-1] += " -> ok"
        w.ops_completed += 1

    # ------------------------------------------------------------------
    def run(self):
        t, w = self.t, self.w
        self.rt = rig_module("rig.routing_table")
        self.rtutils = rig_module("rig.routing_table.utils")
        self.Routes = self.rt.Routes
        self.RoutingTree = rig_module(
            "rig.place_and_route.routing_tree").RoutingTree
        tables_a = self.part_a()
        c = self.c = Ctl(w, buffers=BUFFERS, n_tries_range=(2, 5))
        # the machine covers the chips of the part-A tables
        W = max([x for x, _y in tables_a] + [t.draw(2)]) + 1
        H = max([y for _x, y in tables_a] + [0]) + 1
        m = self.m = c.build_machine(width=W, height=H)
        if t.draw(3) == 0:
            m.vary_layout()
            w.probe("per_chip_layout")
        self.inject_fail = False
        self.inject_chip = None
        m.alloc_fail_hook = lambda chip, what, n: (
            what == "rtr" and self.inject_fail and
            self.inject_chip in (None, (chip.x, chip.y)))
        # pre-fragment the routers
        for xy, ch in m.chips.items():
            k = t.draw_small(6, 0.6)
            if k:
                w.probe("fragmented_start")
            for j in range(k):
                cnt = 1 + t.draw([3, 40, 300][t.draw(3)])
                app = 200 + t.draw(3)
                first = ch.rtr_alloc(cnt, app)
                if first and t.draw(3):
                    for i in range(first, first + cnt):
                        # (entries installed by some core of that app)
                        ch.router[i] = RouterEntry(0x1000 + i, 0xffffffff,
                                                   1 << (i % 24), app,
                                                   core=(app + j) % 16)
            # free some of them again (holes)
            for blk in list(ch.rtr_blocks):
                if t.draw(3) == 0:
                    ch.rtr_free_app(blk[2], clear=True)
        try:
            c.start()
            self.chip_list = sorted(m.chips)
            w.ops.append("config %dx%d %s" % (W, H, c.describe()))
            n_ops = t.op_count(1, 8)
            first = True
            for _ in range(n_ops):
                t.next_segment()
                k = t.weighted([5, 3, 2])
                if first and tables_a and t.draw(2):
                    self.op_load(tables=tables_a)
                    first = False
                elif k == 0:
                    self.op_load()
                elif k == 1:
                    self.op_readback()
                else:
                    self.op_clear()
            c.heal()
            t.begin_tail()
            for ch in m.chips.values():
                for blk in list(ch.rtr_blocks):
                    ch.rtr_free_app(blk[2], clear=True)
            if self.op_load(heal=True):
                self.op_readback()
        finally:
            c.close()
        return {"machine": "%dx%d" % (W, H)}


def run(world, tier, prop):
    return RtrEngine(world, tier).run()
