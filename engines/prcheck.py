"""Independent checkers for placement, allocation and routing results (used by
the deploy, place and history engines).  They read rig's data structures only
as plain data (attributes), never through rig's own helper methods."""

LINK_VEC = [(1, 0), (1, 1), (0, 1), (-1, 0), (-1, -1), (0, -1)]


class MachineView(object):
    """Plain-data view of a rig Machine (width, height, per-chip resources,
    dead chips, dead links) computed without Machine's methods."""

    def __init__(self, machine):
        self.width = machine.width
        self.height = machine.height
        self.base = dict(machine.chip_resources)
        self.exc = {xy: dict(r) for xy, r in
                    machine.chip_resource_exceptions.items()}
        self.dead_chips = set(machine.dead_chips)
        self.dead_links = {(x, y, int(l)) for x, y, l in machine.dead_links}

    def has_chip(self, xy):
        x, y = xy
        return (0 <= x < self.width and 0 <= y < self.height and
                (x, y) not in self.dead_chips)

    def resources(self, xy):
        return self.exc.get(xy, self.base)

    def chips(self):
        return [(x, y) for x in range(self.width) for y in range(self.height)
                if (x, y) not in self.dead_chips]

    def link_up(self, x, y, link):
        return self.has_chip((x, y)) and (x, y, int(link)) not in \
            self.dead_links

    def wraps(self):
        """Whether hops may wrap around (mod width/height)."""
        return True

    def step(self, x, y, link):
        dx, dy = LINK_VEC[int(link)]
        return ((x + dx) % self.width, (y + dy) % self.height)

    def strongly_connected(self):
        chips = self.chips()
        if len(chips) <= 1:
            return True
        fwd = {c: [] for c in chips}
        rev = {c: [] for c in chips}
        for (x, y) in chips:
            for l in range(6):
                if (x, y, l) in self.dead_links:
                    continue
                n = self.step(x, y, l)
                if n in fwd and n != (x, y):
                    fwd[(x, y)].append(n)
                    rev[n].append((x, y))
        for adj in (fwd, rev):
            seen = {chips[0]}
            stack = [chips[0]]
            while stack:
                c = stack.pop()
                for n in adj[c]:
                    if n not in seen:
                        seen.add(n)
                        stack.append(n)
            if len(seen) != len(chips):
                return False
        return True


def reservations_for(constraints, RRC, xy):
    out = []
    for c in constraints:
        if isinstance(c, RRC) and (c.location is None or
                                   tuple(c.location) == tuple(xy)):
            out.append(c)
    return out


def check_placement(vertices_resources, mv, constraints, placements, cons_mod):
    """-> list of (kind, message).  Feasibility of a placement."""
    problems = []
    LC, SC, RRC = (cons_mod.LocationConstraint, cons_mod.SameChipConstraint,
                   cons_mod.ReserveResourceConstraint)
    vs = list(vertices_resources)
    if set(placements) != set(vs) or len(placements) != len(vs):
        missing = [v for v in vs if v not in placements]
        extra = [v for v in placements if v not in vertices_resources]
        problems.append(("vertex-set", "placement misses %r / has extra %r"
                         % (missing[:4], extra[:4])))
        return problems
    used = {}
    for v, xy in placements.items():
        xy = tuple(xy)
        if not mv.has_chip(xy):
            problems.append(("dead-chip", "%r placed on %r which is not a "
                             "working chip" % (v, xy)))
            continue
        acc = used.setdefault(xy, {})
        for r, q in vertices_resources[v].items():
            acc[r] = acc.get(r, 0) + q
    for xy, acc in used.items():
        cap = dict(mv.resources(xy))
        for c in reservations_for(constraints, RRC, xy):
            if c.resource in cap:
                cap[c.resource] -= c.reservation.stop - c.reservation.start
        for r, q in acc.items():
            if q > cap.get(r, 0):
                problems.append(("over-capacity", "chip %r: %r of %r used, "
                                 "%r available after reservations"
                                 % (xy, q, r, cap.get(r, 0))))
    for c in constraints:
        if isinstance(c, LC):
            if c.vertex in placements and \
                    tuple(placements[c.vertex]) != tuple(c.location):
                problems.append(("location", "%r placed on %r, constrained "
                                 "to %r" % (c.vertex, placements[c.vertex],
                                            c.location)))
        elif isinstance(c, SC):
            locs = {tuple(placements[v]) for v in c.vertices
                    if v in placements}
            if len(locs) > 1:
                problems.append(("same-chip", "same-chip group %r spread "
                                 "over %r" % (list(c.vertices)[:4],
                                              sorted(locs))))
    return problems


def check_allocation(vertices_resources, mv, constraints, placements,
                     allocations, cons_mod):
    problems = []
    RRC, ARC = cons_mod.ReserveResourceConstraint, \
        cons_mod.AlignResourceConstraint
    align = {}
    for c in constraints:
        if isinstance(c, ARC):
            align[c.resource] = c.alignment
    by_chip = {}
    for v, res in vertices_resources.items():
        if v not in allocations:
            problems.append(("missing", "no allocation for %r" % (v,)))
            continue
        xy = tuple(placements[v])
        cap = mv.resources(xy)
        for r, q in res.items():
            sl = allocations[v].get(r)
            if sl is None:
                problems.append(("missing-resource", "%r has no allocation "
                                 "of %r" % (v, r)))
                continue
            if sl.step not in (None, 1) or sl.stop - sl.start != q:
                problems.append(("size", "%r: %r allocation %r is not "
                                 "exactly %r" % (v, r, sl, q)))
            if sl.start < 0 or sl.stop > cap.get(r, 0):
                problems.append(("range", "%r: %r allocation %r outside the "
                                 "chip's 0..%r" % (v, r, sl, cap.get(r, 0))))
            if sl.start % align.get(r, 1):
                problems.append(("alignment", "%r: %r allocation %r not "
                                 "aligned to %d" % (v, r, sl, align[r])))
            if q > 0:
                for c in reservations_for(constraints, RRC, xy):
                    if c.resource == r and sl.start < c.reservation.stop \
                            and c.reservation.start < sl.stop:
                        problems.append(("reserved", "%r: %r allocation %r "
                                         "overlaps reservation %r"
                                         % (v, r, sl, c.reservation)))
                by_chip.setdefault((xy, r), []).append((sl.start, sl.stop, v))
        extra = set(allocations[v]) - set(res)
        if extra:
            problems.append(("extra-resource", "%r allocated %r it did not "
                             "ask for" % (v, sorted(map(str, extra)))))
    for (xy, r), lst in by_chip.items():
        lst.sort(key=lambda s: (s[0], s[1]))
        for a, b in zip(lst, lst[1:]):
            if b[0] < a[1]:
                problems.append(("overlap", "chip %r %r: %r and %r overlap"
                                 % (xy, r, a, b)))
    return problems


def walk_tree(RoutingTree, root):
    """-> (nodes [(in_link or None, node)], leaves [(node, route, obj)])"""
    nodes = []
    leaves = []
    stack = [(None, root)]
    while stack:
        d, node = stack.pop()
        nodes.append((d, node))
        for route, obj in node.children:
            if isinstance(obj, RoutingTree):
                stack.append((route, obj))
            else:
                leaves.append((node, route, obj))
    return nodes, leaves


def check_tree(RoutingTree, net, root, mv, placements, allocations,
               endpoints, cores_resource):
    """C03 oracle for one net's tree."""
    problems = []
    src_chip = tuple(placements[net.source])
    if tuple(root.chip) != src_chip:
        problems.append(("root", "tree rooted at %r, the source is on %r"
                         % (root.chip, src_chip)))
    nodes, leaves = walk_tree(RoutingTree, root)
    seen = set()
    for d, node in nodes:
        chip = tuple(node.chip)
        if chip in seen:
            problems.append(("revisit", "chip %r appears twice in the tree"
                             % (chip,)))
        seen.add(chip)
        if not mv.has_chip(chip):
            problems.append(("dead-chip", "tree visits %r which is not a "
                             "working chip" % (chip,)))
        for route, obj in node.children:
            if isinstance(obj, RoutingTree):
                if route is None or int(route) >= 6:
                    problems.append(("hop-route", "hop from %r labelled %r"
                                     % (chip, route)))
                    continue
                if not mv.link_up(chip[0], chip[1], int(route)):
                    problems.append(("dead-link", "hop from %r over link %d "
                                     "which is not working" % (chip,
                                                               int(route))))
                if mv.step(chip[0], chip[1], int(route)) != tuple(obj.chip):
                    problems.append(("hop-target", "hop from %r over link %d "
                                     "leads to %r, the tree says %r"
                                     % (chip, int(route),
                                        mv.step(chip[0], chip[1], int(route)),
                                        obj.chip)))
    # leaves
    want = {}
    for sink in net.sinks:
        chip = tuple(placements[sink])
        if sink in endpoints:
            routes = {int(endpoints[sink])}
        else:
            sl = allocations.get(sink, {}).get(cores_resource)
            if sl is None:
                routes = {None}
            else:
                routes = {6 + c for c in range(sl.start, sl.stop)}
        want.setdefault((chip, id(sink)), (sink, set()))[1].update(routes)
    got = {}
    for node, route, obj in leaves:
        key = (tuple(node.chip), id(obj))
        got.setdefault(key, (obj, set()))[1].add(
            None if route is None else int(route))
    for key, (sink, routes) in want.items():
        if key not in got:
            if routes:
                problems.append(("leaf-missing", "sink %r has no leaf on chip "
                                 "%r" % (sink, key[0])))
            continue
        if got[key][1] != routes and routes:
            problems.append(("leaf-routes", "sink %r on %r routed to %r, "
                             "expected %r" % (sink, key[0],
                                              sorted(got[key][1], key=str),
                                              sorted(routes, key=str))))
    for key, (obj, routes) in got.items():
        if key not in want:
            problems.append(("leaf-extra", "tree has a leaf %r on %r that is "
                             "not a sink placed there" % (obj, key[0])))
    return problems
