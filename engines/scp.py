"""C06 - SCP bursts: exactly-once completion under loss and reordering.

Real: SCPConnection.__init__/send_scp/send_scp_burst, seqs, scpcall,
SCPPacket.  Stub: an echo peer that answers every delivered request copy with
the request's sequence number and a token naming the command, plus the fault
decisions of the network / machine fault policy.
"""
import os

from rigsim.core import SimAbort
from rigsim.net import SimNetwork, FaultPolicy
from rigsim.seams import Seams, install_net, rig_module
from rigsim import wire
from rigsim.runner import innermost_rig_frame

RIG_MODULES = ["rig.machine_control.scp_connection",
               "rig.machine_control.packets", "rig.machine_control.consts"]

COMPONENTS_REAL = ["rig.machine_control.scp_connection.SCPConnection "
                   "(send_scp, send_scp_burst, seqs, scpcall)",
                   "rig.machine_control.packets.SCPPacket",
                   "rig.machine_control.consts"]
COMPONENTS_STUB = ["UDP network, select(), time()/sleep() (simulated, "
                   "discrete-event)", "peer: echo responder with per-copy "
                   "tokens + injected retryable/fatal return codes"]

EPS = 1e-9
RETRYABLE = (0x82, 0x8d)
FATAL = (0x81, 0x83, 0x84, 0x85, 0x86, 0x87, 0x88, 0x89, 0x8a, 0x8b, 0x8c,
         0x8e, 0x8f, 0x90, 0xff)
TIMEOUTS = [0.02, 0.05, 0.1, 0.5, 1.0, 6.0]
# the echo peer's replies are 26 + <=8 bytes; rig sizes its receive buffer
# from buffer_size + 8, so only sizes whose receive length holds a whole reply
# are used here (receive-length sizing itself belongs to C07)
BUFFERS = [32, 64, 100, 128, 255, 256, 512, 236, 108, 44, 492]
CMDS = [0, 2, 3, 5, 17, 18, 20, 22, 23, 25, 26, 28, 29, 31, 48, 57]


def plan(tier, prop):
    quick = tier == "quick"
    return {
        "runs": 30000 if quick else 1500000,
        "budget_s": 45 if quick else 780,
        "chunk": 100 if quick else 500,
        "rule": "each run = one seeded world (n_tries, timeout, window, "
                "buffer size, fault mix drawn per run) driving 1-6 consecutive "
                "bursts / single sends on one connection, then a healed "
                "burst; a run is non-trivial when at least one burst call "
                "returned or raised its documented error; distinct = distinct "
                "abstract event traces (sequence of tx/retx/rx/drop/dup/"
                "delay/callback/raise kinds, no times or payloads)",
        "expected_probes": ["nested_call", "payload_buffer_reused",
                            "retransmission", "timeout_error",
                            "fatal_error", "dup_reply_ignored",
                            "late_reply_in_later_burst",
                            "retryable_discarded", "window_full",
                            "seq_wrap", "falsy_callable_callback", "full_size_reply", "seq_time_warp_done"] + ([] if quick else
                                           ["seq_skip_outstanding"]),
        "knob_ranges": {"n_tries": "1-5", "timeout": TIMEOUTS,
                        "window": "1-16", "buffer_size": BUFFERS,
                        "burst_len": "0-40 (thorough: one 70000-command "
                                     "burst in 1/400 runs)",
                        "ops": "1-6 + heal burst"},
        "assumptions": [
            "datagram lifetime < 5 time-outs, so fewer than 2^16 sequence "
            "numbers are allocated while a datagram is in flight (the 16-bit "
            "wrap hazard is inherent in SCP and acknowledged in the source)",
            "time-outs and retransmission spacing are judged on the host "
            "clock values rig itself read (clock jumps are injected)",
            "liveness (normal completion, zero retransmissions) is asserted "
            "only while no fault is active (fault-free runs and the healed "
            "burst)"],
    }


class Cmd(object):
    __slots__ = ("id", "burst", "x", "y", "p", "cmd", "arg2", "arg3", "data",
                 "extra", "timeout", "tx_clock", "seq", "ok_returned",
                 "callbacks", "replies", "raw", "nest")


class Engine(object):
    def __init__(self, world, tier):
        self.w = world
        self.tier = tier
        self.tape = world.tape
        self.cmds = {}
        self.next_id = 1
        self.cur = None          # commands of the burst in progress
        self.cur_index = -1
        self.fatal_seen = None
        self.last_clock = None
        self.retx = 0
        self.blackhole = {}      # cmd id -> copies still to swallow
        self.stall_total = 0.0
        self.last_new_seq = None
        self.outstanding = {}

    # -- set-up ------------------------------------------------------------
    def setup(self):
        t = self.tape
        w = self.w
        self.n_tries = 1 + t.draw(5)
        self.timeout = TIMEOUTS[t.draw(len(TIMEOUTS))]
        self.window = 1 + t.draw(16)
        self.buffer_size = BUFFERS[t.draw(len(BUFFERS))]
        if t.draw(3) == 0:
            # any size a little below a power of two (where a receive length
            # derived from it changes)
            self.buffer_size = max(32, (1 << (6 + t.draw(4))) - t.draw(41))
        self.policy = FaultPolicy.draw(
            t, ["req_loss", "rep_loss", "rep_delay", "rep_dup", "req_delay",
                "req_dup", "retryable_rc", "fatal_rc", "host_stall",
                "clock_jump_fwd", "clock_jump_back", "partition", "rep_batch",
                "spurious_wakeup", "slow_iterable", "slow_callback"],
            self.timeout)
        # time the host spends in the caller's own code (the iterable that
        # produces the commands, a callback) since rig last read the clock
        self.caller_time = 0.0
        self.pre_advance = [0, 0, 0, 0xfff0, 0xffff, 0x7fff][t.draw(6)]
        self.net = SimNetwork(w, self.policy)
        self.net.hosts["spinn"] = "10.0.0.1"
        self.net.register("10.0.0.1", 17893, self.peer)
        self.net.on_tx = self.on_tx
        self.net.on_rx = self.on_rx
        self.seams = Seams()
        _s, _sel, tim = install_net(self.seams, self.net, boot=False,
                                    bmp=False)
        # record the clock values rig reads
        orig_time = tim.time

        def time_spy():
            v = orig_time()
            self.last_clock = v
            self.caller_time = 0.0
            return v
        tim.time = time_spy
        self.scp = rig_module("rig.machine_control.scp_connection")
        self.conn = self.scp.SCPConnection("spinn", n_tries=self.n_tries,
                                           timeout=self.timeout)
        try:
            for _ in range(self.pre_advance):
                next(self.conn.seq)
        except (AttributeError, TypeError):
            self.pre_advance = 0      # generator not reachable: start at 0
        w.ops.append("config n_tries=%d timeout=%g window=%d buffer=%d "
                     "pre_advance=%#x faults=%s jitter=%g"
                     % (self.n_tries, self.timeout, self.window,
                        self.buffer_size, self.pre_advance,
                        self.policy.describe(), self.policy.jitter))

    # -- peer --------------------------------------------------------------
    def peer(self, payload, reply, sock):
        w = self.w
        r = wire.parse_scp(payload)
        cid = r.arg(0)
        w.trace.ev("peer-rx", cid, r.seq)
        left = self.blackhole.get(cid, 0)
        if left:
            self.blackhole[cid] = left - 1
            w.fault("blackholed_request")
            return
        c = self.cmds.get(cid)
        pr, pf = self.policy.rate("retryable_rc"), self.policy.rate("fatal_rc")
        rc = 0x80
        if pr + pf > 0:
            k = self.tape.weighted([max(0.0, 1 - pr - pf), pr, pf])
            if k == 1:
                rc = RETRYABLE[self.tape.draw(2)]
                w.fault("retryable_rc")
            elif k == 2:
                rc = FATAL[self.tape.draw(len(FATAL))]
                w.fault("fatal_rc")
        copy = 0
        data = b""
        if c is not None:
            copy = len(c.replies)
            # mostly short; now and then a reply that fills the buffer to
            # the byte (the largest datagram rig must accept), or one less
            k = (cid * 5 + copy * 3) % 16
            n_rep = self.buffer_size - (15 - k) if k >= 14 else \
                (cid + copy) % 9
            if k >= 14:
                w.probe("full_size_reply")
            data = bytes(((cid * 7 + copy * 13 + i) & 0xff)
                         for i in range(n_rep))
            c.replies.append((rc, copy, data))
        reply(wire.build_reply(r, rc, [cid if cid is not None else 0, copy,
                                       0xabcd0000 | (r.seq & 0xffff)], data))

    # -- monitors at the seams ---------------------------------------------
    def on_tx(self, sock, payload):
        w = self.w
        r = wire.parse_scp(payload)
        cid = r.arg(0)
        c = self.cmds.get(cid)
        if c is None or self.cur is None or c.burst != self.cur_index:
            w.violate("P", "datagram sent for command id %r which is not a "
                      "command of the burst in progress" % (cid,),
                      kind="unknown-command")
            return
        # P: the datagram is that command
        exp = (0x87, 0xff, 0, c.p, 7, 31, c.y, c.x, 0, 0, c.cmd, c.arg2,
               c.arg3, c.data)
        got = (r.flags, r.tag, r.dest_port, r.dest_cpu, r.src_port, r.src_cpu,
               r.dest_y, r.dest_x, r.src_y, r.src_x, r.cmd, r.arg(1), r.arg(2),
               r.data(3))
        if exp != got or not r.wellformed:
            w.violate("P", "datagram for command %d does not encode it: "
                      "expected %r got %r" % (cid, exp, got), kind="encoding")
        # the host clock at this transmission: what rig read last plus the
        # time the caller's code has taken since (a stall or jump that rig
        # had no means to see between its reading and this send is not
        # counted against it)
        clock = self.last_clock + self.caller_time
        if c.tx_clock:
            # retransmission
            self.retx += 1
            w.probe("retransmission")
            w.trace.ev("retx", cid, len(c.tx_clock) + 1)
            if r.seq != c.seq or payload != c.raw:
                w.violate("P", "retransmission of command %d differs from "
                          "its first transmission (seq %d vs %d)"
                          % (cid, r.seq, c.seq), kind="retx-differs")
            if c.ok_returned:
                w.violate("R0", "command %d retransmitted after its reply "
                          "was received" % cid, kind="retx-after-reply")
            elapsed = clock - c.tx_clock[-1]
            if elapsed < c.timeout - EPS:
                w.violate("R1", "command %d retransmitted %.6f s after its "
                          "previous transmission; its time-out is %.6f s"
                          % (cid, elapsed, c.timeout), kind="early-retx")
            if len(c.tx_clock) >= self.n_tries:
                w.violate("R2", "command %d transmitted %d times; n_tries=%d"
                          % (cid, len(c.tx_clock) + 1, self.n_tries),
                          kind="too-many-tries")
        else:
            c.seq = r.seq
            c.raw = payload
            w.trace.ev("tx", cid)
            o = self.outstanding.get(c.seq)
            if o is not None and o is not c:
                w.violate("S", "commands %d and %d are outstanding with "
                          "the same sequence number %d"
                          % (o.id, cid, c.seq), kind="seq-reuse")
            self.outstanding[c.seq] = c
            if c.seq == 0 and cid > 1:
                w.probe("seq_wrap")
            if self.last_new_seq is not None and \
                    c.seq != (self.last_new_seq + 1) & 0xffff:
                # a sequence number still in use by an outstanding command
                # was skipped
                w.probe("seq_skip_outstanding")
            self.last_new_seq = c.seq
        c.tx_clock.append(clock)
        # W: unanswered commands never exceed the window
        unanswered = len(self.outstanding)
        if unanswered > self.cur_window:
            w.violate("W", "%d commands unanswered with window %d"
                      % (unanswered, self.cur_window), kind="window")
        if unanswered == self.cur_window and len(self.cur) > self.cur_window:
            w.probe("window_full")

    def on_rx(self, sock, data, out):
        w = self.w
        r = wire.parse_scp(out)
        cid = r.arg(0)
        rc = r.cmd
        w.trace.ev("rx", cid, rc)
        c = self.cmds.get(cid)
        if rc == 0x80:
            if c is not None:
                if self.cur is None or c.burst != self.cur_index:
                    w.probe("late_reply_in_later_burst")
                else:
                    if c.ok_returned:
                        w.probe("dup_reply_ignored")
                    c.ok_returned = True
                    if self.outstanding.get(c.seq) is c:
                        del self.outstanding[c.seq]
        elif rc in RETRYABLE:
            w.probe("retryable_discarded")
        else:
            if self.fatal_seen is None:
                self.fatal_seen = (rc, cid)

    def make_callback(self, c):
        w = self.w

        def cb(packet):
            r = wire.parse_scp(bytes(packet))
            w.trace.ev("callback", c.id)
            c.callbacks += 1
            self.caller_code("slow_callback")
            if getattr(c, "nest", False) and not self.nest_from_iterable:
                self.nested_call()
            if c.callbacks > 1:
                w.violate("X1", "callback of command %d invoked %d times"
                          % (c.id, c.callbacks), kind="callback-twice")
            if r.arg(0) != c.id or r.cmd != 0x80 or r.seq != c.seq:
                w.violate("X1", "callback of command %d invoked with the "
                          "reply to command %r (rc %#x, seq %d vs %d)"
                          % (c.id, r.arg(0), r.cmd, r.seq, c.seq),
                          kind="wrong-reply")
            if not c.ok_returned:
                w.violate("X1", "callback of command %d invoked before any "
                          "reply to it was received" % c.id,
                          kind="callback-before-reply")
            if (0x80, r.arg(1), r.data(3)) not in c.replies:
                w.violate("X1", "callback of command %d invoked with a "
                          "datagram the peer never generated for it" % c.id,
                          kind="forged-reply")
            wp = self.warp
            if wp and c not in wp and all(
                    v.seq is not None and not v.ok_returned for v in wp) \
                    and wp[1].seq == (wp[0].seq + 1) & 0xffff:
                # both victims unanswered: advance the counter to just
                # before the first victim's number
                self.warp = None
                goal = (wp[0].seq - 2) & 0xffff
                for _ in range(70000):
                    if next(self.conn.seq) == goal:
                        break
                w.probe("seq_time_warp_done")
        kind = self.tape.weighted([8, 1, 1])
        if kind == 1:
            # a callable object that is an (empty) collection: falsy
            class Collector(list):
                def __call__(self, packet):
                    return cb(packet)
            w.probe("falsy_callable_callback")
            return Collector()
        if kind == 2:
            import functools
            return functools.partial(cb)
        return cb

    def caller_code(self, kind):
        """The caller's own code (the command iterable, a callback) may take
        its time: the host clock moves on while rig is not looking."""
        p = self.policy.rate(kind)
        if p > 0 and self.tape.chance(p):
            d = (0.01 + 0.99 * (1 + self.tape.draw(10)) / 10.0 *
                 min(1.0, 2 * self.timeout))
            self.w.fault(kind)
            self.w.trace.ev(kind, d)
            self.w.sim.now += d
            self.caller_time += d
            self.caller_total += d

    def nested_call(self):
        """One send_scp on the same connection while a burst is in progress
        (judged by its own oracle); the outer burst's book-keeping is put
        aside and restored."""
        if getattr(self, "depth", 0) >= 1:
            return
        names = ("cur", "cur_index", "cur_window", "outstanding",
                 "fatal_seen", "warp", "caller_total", "cur_n_args")
        saved = {k: getattr(self, k, None) for k in names}
        outer_index = self.cur_index
        t0 = self.w.sim.now
        self.depth = 1
        try:
            # (a fresh burst index; the outer's commands are "of another
            # burst" while it runs, exactly as rig's inner loop sees them)
            self.cur_index = self.max_index
            self.run_burst(1, 1, single=True)
        finally:
            self.depth = 0
            self.max_index = max(self.max_index, self.cur_index)
            for k, v in saved.items():
                setattr(self, k, v)
            self.cur_index = outer_index
            dt = self.w.sim.now - t0
            self.caller_total = (saved["caller_total"] or 0.0) + dt

    def nesting_iter(self, it, cmds):
        for c, call in zip(cmds, it):
            if getattr(c, "nest", False):
                self.nested_call()
            yield call

    def slow_iter(self, calls):
        for call in calls:
            self.caller_code("slow_iterable")
            yield call

    # -- workload ----------------------------------------------------------
    def new_cmd(self, burst, simple=False):
        t = self.tape
        c = Cmd()
        c.id = self.next_id
        self.next_id += 1
        c.burst = burst
        if simple:
            c.x = c.y = c.p = 0
            c.cmd = 0
            c.arg2 = c.arg3 = 0
            c.data = b""
            c.extra = 8.0 if c.id == getattr(self, "long_victim", None) \
                else 0.0
        else:
            c.x, c.y, c.p = t.edge(256), t.edge(256), t.edge(18)
            c.cmd = CMDS[t.draw(len(CMDS))]
            c.arg2 = t.edge(1 << 32)
            c.arg3 = t.edge(1 << 32)
            n_data = t.draw_small(min(self.buffer_size, 48) + 1, 0.7)
            if t.draw(8) == 0:
                # a payload filling the machine's buffer (to the byte)
                n_data = self.buffer_size - t.draw(2)
            c.data = t.bytes(n_data)
            c.extra = [0.0, 0.0, 0.0, 0.05, 0.3, 5.0][t.draw(6)]
        c.timeout = self.timeout + c.extra
        c.tx_clock = []
        c.seq = None
        c.raw = None
        c.ok_returned = False
        c.callbacks = 0
        c.replies = []
        c.nest = False
        self.cmds[c.id] = c
        return c

    def run_burst(self, n, window, single=False, heal=False, simple=False):
        w = self.w
        scp = self.scp
        self.max_index = max(getattr(self, "max_index", 0),
                             self.cur_index) + 1
        self.cur_index = self.max_index
        idx = self.cur_index
        cmds = [self.new_cmd(idx, simple) for _ in range(n)]
        if not heal and not simple and self.policy.any_net():
            for c in cmds:
                if self.tape.chance(0.02):
                    self.blackhole[c.id] = 1 + self.tape.draw(self.n_tries)
        # "time warp" of the 16-bit sequence counter: two neighbouring
        # commands stay unanswered for a while (their first copies are lost)
        # and meanwhile the counter is advanced - as 65 thousand answered
        # commands would - to just before their numbers, so that the numbers
        # the next commands would get are both still in use.  Only without
        # late copies of datagrams (a late reply to a number used 65536
        # commands ago cannot exist in reality).
        self.warp = None
        pol = self.policy
        # (any other fault could leave a datagram of before the warp in
        # flight: only otherwise fault-free runs are warped)
        late = pol.active and (pol.any_net() or any(
            pol.rates.get(k, 0) > 0 for k in pol.rates))
        if not heal and not simple and not single and n >= 8 and \
                window >= 3 and self.n_tries >= 2 and not late and \
                self.tape.draw(3) == 0:
            for c in cmds[:2]:
                self.blackhole[c.id] = 1 + self.tape.draw(self.n_tries - 1)
            self.warp = cmds[:2]
            w.probe("seq_time_warp")
        warped = self.warp is not None
        # re-entrant use: a callback (or the command iterable) of this burst
        # issues a command of its own on the same connection.  The unchanged
        # code gets through that by retransmission (the inner call consumes
        # and discards replies meant for the outer burst), so only the
        # clauses that do not depend on who received a reply are judged for
        # the outer burst: see `nested` below.
        nested = (not heal and not simple and not single and not warped and
                  getattr(self, "depth", 0) == 0 and n >= 1 and
                  self.tape.draw(12) == 0)
        if nested:
            w.probe("nested_call")
            for c in cmds:
                c.nest = self.tape.draw(3) == 0
            cmds[self.tape.draw(len(cmds))].nest = True
            self.nest_from_iterable = bool(self.tape.draw(2))
        self.cur = cmds
        self.outstanding = {}     # seq -> command sent and not yet answered
        self.cur_window = 1 if single else window
        self.fatal_seen = None
        retx0 = self.retx
        t_start = self.w.sim.now
        seam0 = self.w.sim.seam_calls
        self.caller_total = 0.0
        label = ("send_scp" if single else "burst") + \
            "#%d n=%d window=%d%s" % (idx, n, self.cur_window,
                                      " HEALED" if heal else "")
        w.trace.ev("op", label)
        outcome = "returned"
        exc = None
        result = None
        try:
            if single:
                c = cmds[0]
                n_args = self.cur_n_args = 3 - self.tape.draw_small(4, 0.3)
                args = [self.buffer_size, c.x, c.y, c.p, c.cmd, c.id,
                        c.arg2, c.arg3, c.data, n_args, c.extra]
                # trailing arguments left to their documented defaults
                # (no extra time-out, three arguments expected, no payload)
                if c.extra == 0.0 and self.tape.draw(2):
                    args.pop()
                    if n_args == 3 and self.tape.draw(2):
                        args.pop()
                        if c.data == b"" and self.tape.draw(2):
                            args.pop()
                    self.w.probe("send_scp_default_arguments")
                result = self.conn.send_scp(*args)
                # send_scp installs its own callback
                c.callbacks = 1
            else:
                calls = [scp.scpcall(c.x, c.y, c.p, c.cmd, c.id, c.arg2,
                                     c.arg3, c.data, self.make_callback(c),
                                     c.extra)
                         if c.extra != 0.0 or c.id % 3 else
                         scp.scpcall(c.x, c.y, c.p, c.cmd, c.id, c.arg2,
                                     c.arg3, c.data, self.make_callback(c))
                         for c in cmds]
                it = iter(calls) if self.tape.draw(2) else calls
                if self.tape.draw(6) == 0 and not warped:
                    # the caller builds every command's payload in one
                    # buffer of its own, refilled as each command is asked
                    # for (a command is what it was when it was handed over)
                    w.probe("payload_buffer_reused")
                    buf = bytearray()

                    def refilling(calls_=calls):
                        for call in calls_:
                            buf[:] = call.data
                            yield call._replace(data=buf)
                    calls = refilling()
                    it = calls
                if self.policy.rate("slow_iterable") > 0:
                    it = self.slow_iter(calls)
                if nested and self.nest_from_iterable:
                    it = self.nesting_iter(it, cmds)
                self.conn.send_scp_burst(self.buffer_size, window, it)
        except scp.TimeoutError as e:
            outcome, exc = "TimeoutError", e
        except scp.FatalReturnCodeError as e:
            outcome, exc = "FatalReturnCodeError", e
        except (SimAbort, KeyboardInterrupt):
            raise
        except BaseException as e:
            if type(e).__name__ == "Violation":
                raise
            w.violate("E", "burst raised %s: %s (in %s)"
                      % (type(e).__name__, e, innermost_rig_frame(e)),
                      kind="unexpected-exception", exc=type(e).__name__)
            return
        w.trace.ev("outcome", outcome)
        w.ops.append("%s -> %s (retx=%d)" % (label, outcome,
                                             self.retx - retx0))
        elapsed = w.sim.now - t_start
        # -- oracle at return -------------------------------------------
        if outcome == "returned":
            for c in cmds:
                if c.callbacks != 1:
                    w.violate("X1", "burst returned normally but the callback "
                              "of command %d ran %d times"
                              % (c.id, c.callbacks), kind="callback-count")
                if not c.ok_returned:
                    w.violate("X1", "burst returned normally but no reply to "
                              "command %d was received" % c.id,
                              kind="no-reply")
            if self.fatal_seen is not None:
                w.violate("F", "a fatal return code %#x was received but the "
                          "call returned normally" % self.fatal_seen[0],
                          kind="fatal-ignored")
            if single:
                c = cmds[0]
                p = result
                # the reply carries three words (id, copy, marker) and the
                # token bytes; with expected_args = n the first n words are
                # arguments and the rest stays in the data
                n_args = self.cur_n_args
                words = [c.id, None, 0xabcd0000 | c.seq]
                ok = p.cmd_rc == 0x80 and p.seq == c.seq
                got_args = [p.arg1, p.arg2, p.arg3]
                raw_tail = b""
                for i in range(3):
                    if i < n_args:
                        if i != 1 and got_args[i] != words[i]:
                            ok = False
                    else:
                        if got_args[i] is not None:
                            ok = False
                if n_args >= 2:
                    copy = p.arg2
                    token = bytes(p.data)[4 * 0:] if n_args == 3 else \
                        bytes(p.data)[4:]
                    if n_args == 2 and bytes(p.data)[:4] != wire.p32(
                            words[2]):
                        ok = False
                else:
                    d = bytes(p.data)
                    skip = 4 * (3 - n_args)
                    if len(d) < skip:
                        ok = False
                        copy, token = None, b""
                    else:
                        hdr = d[:skip]
                        copy = wire.u32(hdr, skip - 8)
                        if hdr[skip - 4:skip] != wire.p32(words[2]):
                            ok = False
                        if n_args == 0 and hdr[:4] != wire.p32(c.id):
                            ok = False
                        token = d[skip:]
                if ok and (0x80, copy, token) not in c.replies:
                    ok = False
                if not ok:
                    w.violate("X2", "send_scp returned a packet that is not a "
                              "reply to its command %d: %r" % (c.id, p),
                              kind="wrong-return")
        elif outcome == "TimeoutError":
            w.probe("timeout_error")
            pk = getattr(exc, "packet", None)
            cid = getattr(pk, "arg1", None)
            c = self.cmds.get(cid)
            if c is None or c.burst != idx:
                w.violate("T", "TimeoutError names command %r which is not "
                          "in this burst" % (cid,), kind="timeout-names")
            else:
                if len(c.tx_clock) != self.n_tries:
                    w.violate("T", "TimeoutError for command %d after %d "
                              "transmissions; n_tries=%d"
                              % (c.id, len(c.tx_clock), self.n_tries),
                              kind="timeout-tries")
                if c.ok_returned:
                    w.violate("T", "TimeoutError for command %d although its "
                              "reply had been received" % c.id,
                              kind="timeout-after-reply")
            if self.fatal_seen is not None:
                w.violate("F", "a fatal return code %#x was received but "
                          "TimeoutError was raised" % self.fatal_seen[0],
                          kind="fatal-ignored")
        else:
            w.probe("fatal_error")
            if self.fatal_seen is None:
                w.violate("F", "FatalReturnCodeError raised but no datagram "
                          "with a fatal return code was received",
                          kind="fatal-spurious")
            else:
                rc = getattr(exc, "return_code", None)
                if rc is None or int(rc) != self.fatal_seen[0]:
                    w.violate("F", "FatalReturnCodeError carries code %r; the "
                              "datagram received had %#x"
                              % (rc, self.fatal_seen[0]), kind="fatal-code")
                # when the error names a command it is the rejected one
                pk = getattr(exc, "packet", None)
                if pk is not None and \
                        getattr(pk, "arg1", None) != self.fatal_seen[1]:
                    w.violate("F", "FatalReturnCodeError names %r; the "
                              "command rejected with %#x was %r"
                              % (getattr(pk, "arg1", pk if not isinstance(
                                  pk, (bytes, bytearray)) else
                                  "<raw bytes>"), self.fatal_seen[0],
                                 self.fatal_seen[1]), kind="fatal-names")
        # callbacks never ran for commands that were not answered
        for c in cmds:
            if c.callbacks and not c.ok_returned and not single:
                w.violate("X1", "callback of command %d ran without a reply"
                          % c.id, kind="callback-without-reply")
            if c.callbacks > 1:
                w.violate("X1", "callback of command %d ran %d times"
                          % (c.id, c.callbacks), kind="callback-twice")
        # L: bounded duration (virtual time)
        bound = (sum(self.n_tries * c.timeout for c in cmds) +
                 n * 0.05 + 1.0 + 12 * self.timeout * self.w.faults.get(
                     "host_stall", 0) + 0.6 * self.timeout * self.w.faults.get(
                     "clock_jump_back", 0) +
                 (w.sim.seam_calls - seam0) * w.sim.TICK +
                 self.caller_total * (1 + self.n_tries))
        if elapsed > bound:
            w.violate("L", "call took %.3f s of virtual time; bound %.3f s"
                      % (elapsed, bound), kind="duration")
        # liveness while no fault is active
        if not self.policy.any_net() and not any(
                self.policy.rate(k) for k in
                ("retryable_rc", "fatal_rc", "host_stall", "clock_jump_fwd",
                 "clock_jump_back", "slow_iterable", "slow_callback")) and \
                (heal or self.clean) and \
                getattr(self, "long_victim", None) is None and \
                not warped and not nested:
            if outcome != "returned":
                w.violate("L", "no fault is active but the call raised %s"
                          % outcome, kind="healed-failure")
            if self.retx != retx0:
                w.violate("L", "no fault is active but %d retransmissions "
                          "were made" % (self.retx - retx0),
                          kind="healed-retx")
        self.cur = None
        w.ops_completed += 1

    def long_burst(self):
        """70 000 commands through one burst with one command that is not
        answered for several tries, so that the sequence number wraps while it
        is outstanding (the `seq in outstanding_packets` skip)."""
        n = 70000
        self.w.ops.append("long burst n=%d" % n)
        first = self.next_id
        victim = first + 3
        # the victim's first copy is swallowed and its time-out is long, so it
        # stays outstanding while > 65536 other commands use up the numbers
        self.blackhole[victim] = 1
        self.long_victim = victim
        before = sum(1 for _ in [0])
        self.run_burst(n, 16, simple=True)
        self.long_victim = None
        v = self.cmds.get(victim)
        if v is not None and v.ok_returned and len(v.tx_clock) > 1:
            # did the sequence wrap past the victim while it was outstanding?
            self.w.probe("long_burst_victim_recovered")
        del before

    def run(self):
        t = self.tape
        w = self.w
        self.setup()
        try:
            self.clean = not (self.policy.any_net() or any(
                self.policy.rates.get(k, 0) for k in
                ("retryable_rc", "fatal_rc", "host_stall", "clock_jump_fwd",
                 "clock_jump_back", "slow_iterable", "slow_callback")))
            n_ops = t.op_count(1, 6)
            do_long = (self.tier == "thorough" and t.draw(1000) == 0) or \
                bool(os.environ.get("VERIF_C06_FORCE_LONG"))
            for _ in range(n_ops):
                t.next_segment()
                kind = t.weighted([5, 1])
                if kind == 0:
                    n = t.draw_small(41, 0.85)
                    window = self.window if t.draw(3) else 1 + t.draw(16)
                    self.run_burst(n, window)
                else:
                    self.run_burst(1, 1, single=True)
            if do_long:
                # timeouts must be long enough for 65536 numbers to be used
                if self.n_tries >= 2 and \
                        not self.policy.rates.get("fatal_rc"):
                    self.long_burst()
            # heal: faults off, stale datagrams drained and consumed
            self.net.heal()
            w.sim.drain(6 * (self.timeout + 0.3) + 1.0)
            for s in self.net.sockets:
                s.inbox.clear()
                del s.held[:]
            t.begin_tail()
            self.run_burst(1 + t.draw(20), self.window, heal=True)
        finally:
            self.seams.restore()
        return {"n_tries": self.n_tries, "timeout": self.timeout,
                "window": self.window, "faults": self.policy.describe()}


def run(world, tier, prop):
    return Engine(world, tier).run()
