"""C14 - probed system description and derived machine model match the machine.

Real: get_system_info, get_chip_info, get_p2p_routing_table,
get_software_version, get_processor_status, get_iobuf(_bytes),
get_router_diagnostics, get_num_working_cores, get_working_links,
get_ip_address, SystemInfo.*, build_machine, build_core_constraints,
build_routing_table_target_lengths.
Peer: a drawn machine state; ground truth is the model's state.
"""
from rigsim import wire
from rigsim.machine import (SimMachine, Chip, ST_IDLE, ST_RUN, VCPU_BASE,
                            VCPU_SIZE)
from rigsim.seams import rig_module
from .common import Ctl, rigcall, MC_MODULES, TIMEOUTS

RIG_MODULES = MC_MODULES + ["rig.place_and_route.utils",
                            "rig.place_and_route.machine",
                            "rig.routing_table.utils", "rig.links"]
COMPONENTS_REAL = [
    "MachineController.get_system_info/get_chip_info/get_p2p_routing_table/"
    "get_software_version/get_processor_status/get_iobuf/get_iobuf_bytes/"
    "get_router_diagnostics/get_num_working_cores/get_working_links/"
    "get_ip_address", "SystemInfo (all methods), ChipInfo, CoreInfo, "
    "ProcessorStatus, RouterDiagnostics", "rig.place_and_route.utils."
    "build_machine/build_core_constraints", "rig.routing_table.utils."
    "build_routing_table_target_lengths", "rig.place_and_route.Machine",
    "common.unpack_sver_response_version", "SCPConnection"]
COMPONENTS_STUB = ["UDP network/select/clock (simulated)",
                   "SpiNNaker machine state: P2P table, info command, sv / "
                   "vcpu blocks, IOBUF chains, heaps, router free list, "
                   "diagnostic counters, sver in both encodings (reference "
                   "model = ground truth)"]
BUFFERS = [32, 64, 100, 128, 248, 256, 512]
FAULTS = ["req_loss", "rep_loss", "rep_delay", "rep_dup", "req_delay",
          "req_dup", "retryable_rc", "fatal_rc", "slow_machine", "partition",
          "transient_busy", "rep_batch", "spurious_wakeup"]
STATES = [0, 1, 2, 3, 4, 5, 6, 7, 8, 9, 10, 11]


def plan(tier, prop):
    quick = tier == "quick"
    return {
        "runs": 6000 if quick else 300000,
        "budget_s": 50 if quick else 800,
        "chunk": 20 if quick else 100,
        "rule": "each run = one drawn machine state (size, dead / "
                "unresponsive chips, cores, core states global and "
                "chip-specific, per-direction links, heaps, router blocks, "
                "IOBUF chains, sver encoding) probed by 1-6 operations over "
                "the faulty network, then a healed full probe; non-trivial = "
                "at least one probe completed; distinct = distinct abstract "
                "event traces",
        "expected_probes": ["iobuf_over_8MiB",
                            "dead_chip", "unresponsive_chip",
                            "chip_absent_after_loss", "global_busy_core",
                            "chip_specific_busy_core", "iobuf_multi_block",
                            "semver", "legacy_version", "resource_exception",
                            "dead_link", "fatal_from_chip",
                            "healed_full_probe"] + (
                                [] if quick else ["big_addressing"]),
        "knob_ranges": {"machine": "1x1..12x12 (thorough: ..32x32 and sparse "
                        "256x256 addressing)", "cores": "1-18",
                        "buffer_size": BUFFERS, "timeout": TIMEOUTS,
                        "iobuf_size": [16, 64, 1024, 16384]},
        "assumptions": [
            "a chip is 'responding' iff an ok reply to the info command from "
            "it reached rig's socket (a chip whose every try was lost is "
            "legitimately absent)",
            "after heal a second probe must return the complete truth",
            "probing is read-only, so request delay/duplication is injected "
            "too"],
    }


class ProbeEngine(object):
    def __init__(self, world, tier):
        self.w = world
        self.t = world.tape
        self.tier = tier
        self.huge_console = False
        self.seq_info = {}
        self.responded = set()
        self.fatal_too = set()
        self.last_tx_seq = None
        self.cur_target = None

    # -- bookkeeping: which chips' info replies reached the socket ----------
    def on_command(self, chip, r, ip):
        if r.cmd == 31:
            self.seq_info[r.seq] = (chip.x, chip.y)

    def on_tx(self, sock, payload):
        r = wire.parse_scp(payload)
        self.last_tx_seq = r.seq
        self.cur_target = (r.dest_x, r.dest_y) if r.cmd == 31 else None

    def on_rx(self, sock, data, out):
        # a reply counts only while rig is still waiting for it: commands go
        # out one at a time, so that is "its sequence number is that of the
        # datagram transmitted last"
        r = wire.parse_scp(out)
        if r.cmd not in (0x80, 0x82, 0x8d) and self.cur_target is not None:
            # a fatal code ends the exchange in progress whatever command it
            # answers (e.g. the late reply to a request of the previous chip):
            # the chip being probed may legitimately be left out
            self.fatal_too.add(self.cur_target)
        if r.seq != self.last_tx_seq or r.seq not in self.seq_info:
            return
        if r.cmd == 0x80 and len(out) >= 26 + 24:
            self.responded.add(self.seq_info[r.seq])
        elif r.cmd not in (0x80, 0x82, 0x8d):
            self.fatal_too.add(self.seq_info[r.seq])

    # -- ground truth --------------------------------------------------------
    def truth_chip(self, ch):
        Links = self.Links
        return dict(
            num_cores=len(ch.cores),
            core_states=[c.state for c in ch.cores],
            working_links={Links(l) for l in ch.working_links()},
            largest_free_sdram_block=ch.sdram.largest_free(),
            largest_free_sram_block=ch.sysram.largest_free(),
            largest_free_rtr_mc_block=ch.rtr_largest_free(),
            ethernet_up=ch.eth_up,
            ip_address=ch.ip if ch.ip else "0.0.0.0",
            local_ethernet_chip=ch.local_eth)

    def check_chip_info(self, xy, info, what):
        w = self.w
        tr = self.truth_chip(self.m.chips[xy])
        for k, v in tr.items():
            got = getattr(info, k)
            if k == "core_states":
                got = [int(s) for s in got]
            if k == "ip_address" and not tr["ethernet_up"]:
                continue
            if got != v:
                w.violate("CI", "%s: chip %r %s is %r, the machine has %r"
                          % (what, xy, k, got, v), kind="chipinfo", field=k)

    # -- operations --------------------------------------------------------
    def allowed(self):
        return (self.c.scp.TimeoutError, self.c.scp.FatalReturnCodeError)

    def failed(self, what, val, target=None):
        """A probe ended in an SCP error: legitimate only under faults or when
        aimed at a dead / unresponsive chip."""
        w, c = self.w, self.c
        bad_target = target is not None and (
            target not in self.m.chips or self.m.chips[target].dead or
            self.m.chips[target].unresponsive)
        if c.clean() and not bad_target:
            w.violate("L", "%s raised %s with no fault active"
                      % (what, type(val).__name__), kind="clean-failure",
                      op=what.split("(")[0])
        w.ops[-1] += " -> " + type(val).__name__

    def op_system_info(self, heal=False):
        w, c, m = self.w, self.c, self.m
        self.responded = set()
        self.fatal_too = set()
        self.seq_info = {}
        w.trace.ev("op", "get_system_info")
        w.ops.append("get_system_info()")
        status, si = rigcall(w, self.allowed(), c.mc.get_system_info)
        if status == "exc":
            if self.cur_target is not None:
                # the exchange that failed was one chip's info request: that
                # chip is left out, the probe itself goes on
                w.violate("SI", "get_system_info was aborted (%s) by the "
                          "failure of chip %r's info request instead of "
                          "leaving that chip out"
                          % (type(si).__name__, self.cur_target),
                          kind="aborted-by-chip")
            return self.failed("get_system_info", si)
        live = {xy for xy, ch in m.chips.items() if not ch.dead}
        answering = {xy for xy in live if not m.chips[xy].unresponsive}
        W = max(x for x, y in live) + 1
        H = max(y for x, y in live) + 1
        if (si.width, si.height) != (W, H):
            w.violate("SI", "SystemInfo is %dx%d, the machine's live chips "
                      "span %dx%d" % (si.width, si.height, W, H),
                      kind="dimensions")
        keys = set(si)
        if c.clean() or heal:
            lo = hi = answering
            if heal:
                w.probe("healed_full_probe")
        else:
            # a chip that sent both an ok and a fatal reply in time may
            # legitimately be treated either way
            hi = self.responded & answering
            lo = hi - self.fatal_too
            if answering - hi:
                w.probe("chip_absent_after_loss")
        if not (lo <= keys <= hi):
            w.violate("SI", "SystemInfo lists chips %r that did not answer / "
                      "omits %r that did" % (sorted(keys - hi)[:4],
                                             sorted(lo - keys)[:4]),
                      kind="chip-set")
        for xy in sorted(keys & live):
            self.check_chip_info(xy, si[xy], "get_system_info")
        self.check_helpers(si)
        self.check_machine(si)
        w.ops[-1] += " -> %d chips" % len(keys)
        w.ops_completed += 1

    def machine_meaning(self, mach):
        """What a Machine says, independently of how it says it."""
        return (mach.width, mach.height,
                {xy: dict(mach[xy]) for xy in mach},
                {(x, y, int(l)) for (x, y) in mach for l in self.Links
                 if (x, y, l) in mach})

    def op_get_machine(self):
        """The deprecated one-call form: the same model as build_machine on a
        fresh description (only judged when nothing can get lost)."""
        w, c, t = self.w, self.c, self.t
        kw = [{}, {}, {"default_num_cores": 18},
              {"default_num_cores": 1 + t.draw(18)}][t.draw(4)]
        w.trace.ev("op", "get_machine")
        w.ops.append("get_machine(%s)" % ", ".join(
            "%s=%r" % kv for kv in sorted(kw.items())))
        w.probe("deprecated_get_machine")
        status, mach = rigcall(w, self.allowed(), c.mc.get_machine, **kw)
        if status == "exc":
            return self.failed("get_machine", mach)
        status, si = rigcall(w, self.allowed(), c.mc.get_system_info)
        if status == "exc":
            return self.failed("get_system_info", si)
        if self.machine_meaning(mach) != self.machine_meaning(
                self.parutils.build_machine(si)):
            w.violate("BM", "get_machine() describes another machine than "
                      "build_machine(get_system_info())",
                      kind="get-machine-differs")
        w.ops[-1] += " -> ok"
        w.ops_completed += 1

    def check_helpers(self, si):
        w = self.w
        Links = self.Links
        if set(si.chips()) != set(si):
            w.violate("SI", "chips() differs from the keys", kind="helper")
        dead = set(si.dead_chips())
        exp_dead = {(x, y) for x in range(si.width) for y in range(si.height)
                    if (x, y) not in si}
        if dead != exp_dead:
            w.violate("SI", "dead_chips() wrong", kind="helper")
        links = set(si.links())
        exp_links = {(x, y, l) for (x, y), ci in si.items()
                     for l in ci.working_links}
        if links != exp_links:
            w.violate("SI", "links() wrong", kind="helper")
        dl = set(si.dead_links())
        exp_dl = {(x, y, l) for (x, y), ci in si.items() for l in Links
                  if l not in ci.working_links}
        if dl != exp_dl:
            w.violate("SI", "dead_links() wrong", kind="helper")
        cores = list(si.cores())
        exp_cores = [(x, y, p, s) for (x, y), ci in si.items()
                     for p, s in enumerate(ci.core_states)]
        if sorted(cores) != sorted(exp_cores):
            w.violate("SI", "cores() wrong", kind="helper")
        eth = set(si.ethernet_connected_chips())
        exp_eth = {(xy, ci.ip_address) for xy, ci in si.items()
                   if ci.ethernet_up}
        if eth != exp_eth:
            w.violate("SI", "ethernet_connected_chips() wrong", kind="helper")
        for (x, y), ci in list(si.items())[:6]:
            ok = ((x, y) in si and (x, y, 0) in si and
                  (x, y, ci.num_cores) not in si and
                  (x, y, 0, ci.core_states[0]) in si)
            for l in Links:
                ok = ok and (((x, y, l) in si) == (l in ci.working_links))
            if not ok:
                w.violate("SI", "__contains__ wrong for chip %r" % ((x, y),),
                          kind="helper")
            # (x, y, p, state): true for exactly the state the core is in -
            # every state of the enumeration asked about, dead (0) included
            for p in (0, ci.num_cores - 1, self.t.draw(ci.num_cores)):
                for st in self.AppState:
                    if ((x, y, p, st) in si) != (ci.core_states[p] == st):
                        w.violate("SI", "(%d, %d, %d, %s) in system_info is "
                                  "%s; the core is in state %s"
                                  % (x, y, p, st.name, (x, y, p, st) in si,
                                     ci.core_states[p].name),
                                  kind="helper-contains-state")
            if (x, y, ci.num_cores, ci.core_states[0]) in si or \
                    (x, y, -1, ci.core_states[0]) in si:
                w.violate("SI", "a core that does not exist is reported "
                          "present on chip %r" % ((x, y),), kind="helper")

    def check_machine(self, si):
        """build_machine / build_core_constraints / target lengths against
        the ground truth of the chips that are in ``si``."""
        w, m = self.w, self.m
        par = self.par
        Links = self.Links
        mach = self.parutils.build_machine(si)
        if (mach.width, mach.height) != (si.width, si.height):
            w.violate("BM", "Machine dimensions differ", kind="machine-dims")
        present = set(mach)
        if present != set(si):
            w.violate("BM", "Machine contains chips %r, the description has "
                      "%r" % (sorted(present ^ set(si))[:5], len(si)),
                      kind="machine-chips")
        exc = False
        for xy in sorted(present & set(si)):
            tr = self.truth_chip(m.chips[xy])
            res = mach[xy]
            want = {par.Cores: tr["num_cores"],
                    par.SDRAM: tr["largest_free_sdram_block"],
                    par.SRAM: tr["largest_free_sram_block"]}
            if dict(res) != want:
                w.violate("BM", "Machine[%r] is %r, the chip has %r"
                          % (xy, dict(res), want), kind="machine-resources")
            if xy in mach.chip_resource_exceptions:
                exc = True
            for l in Links:
                up = l in tr["working_links"]
                if ((xy[0], xy[1], l) in mach) != up:
                    w.violate("BM", "link %r of chip %r is %s in the Machine "
                              "but %s on the machine"
                              % (l, xy, "present" if not up else "absent",
                                 "down" if not up else "up"),
                              kind="machine-link")
                if not up:
                    w.probe("dead_link")
        if exc:
            w.probe("resource_exception")
        # core reservations
        cons = self.parutils.build_core_constraints(si)
        for c_ in cons:
            if c_.resource is not par.Cores:
                w.violate("CC", "reservation of another resource",
                          kind="constraint-resource")
        glob = [c_ for c_ in cons if c_.location is None]
        if glob:
            w.probe("global_busy_core")
        for xy in sorted(set(si)):
            tr = self.truth_chip(m.chips[xy])
            mine = [c_ for c_ in cons if c_.location in (None, xy)]
            if any(c_.location == xy for c_ in cons):
                w.probe("chip_specific_busy_core")
            covered = []
            for c_ in mine:
                covered.extend(range(c_.reservation.start,
                                     c_.reservation.stop))
            busy = {p for p, s in enumerate(tr["core_states"])
                    if s != ST_IDLE}
            if len(covered) != len(set(covered)):
                w.violate("CC", "core reservations applying to chip %r "
                          "overlap: %r" % (xy, sorted(covered)),
                          kind="constraint-overlap")
            if set(covered) != busy:
                w.violate("CC", "core reservations applying to chip %r cover "
                          "%r; its non-idle cores are %r"
                          % (xy, sorted(set(covered)), sorted(busy)),
                          kind="constraint-cover")
        for c_ in cons:
            if c_.location is not None and c_.location not in si:
                w.violate("CC", "reservation for chip %r which is not in the "
                          "description" % (c_.location,),
                          kind="constraint-chip")
        tl = self.rtutils.build_routing_table_target_lengths(si)
        want_tl = {xy: m.chips[xy].rtr_largest_free() for xy in si}
        if dict(tl) != want_tl:
            w.violate("TL", "routing table target lengths differ from the "
                      "routers' largest free blocks", kind="target-lengths")
        # the caller edits the description (drops a chip it does not trust,
        # later puts it back) and derives the model again
        others = sorted(xy for xy in si if xy != tuple(m.root))
        if others and self.t.draw(3) == 0:
            w.probe("description_edited")
            xy = others[self.t.draw(len(others))]
            saved = si[xy]
            del si[xy]
            m2 = self.parutils.build_machine(si)
            if xy in m2 or xy not in set(si.dead_chips()) or \
                    set(m2) != set(si):
                w.violate("BM", "chip %r was removed from the description "
                          "but the model derived afterwards still has it "
                          "(or dead_chips() does not list it)" % (xy,),
                          kind="stale-after-edit")
            if any(c_.location == xy for c_ in
                   self.parutils.build_core_constraints(si)):
                w.violate("CC", "reservation for chip %r removed from the "
                          "description" % (xy,), kind="stale-after-edit")
            si[xy] = saved
            m3 = self.parutils.build_machine(si)
            if self.machine_meaning(m3) != self.machine_meaning(mach):
                w.violate("BM", "chip %r was put back into the description "
                          "but the model derived afterwards differs from "
                          "the first one" % (xy,), kind="stale-after-edit")

    def pick_chip(self, any_chip=False):
        t = self.t
        xs = self.all_chips if any_chip else self.good_chips
        return xs[t.draw(len(xs))]

    def op_chip_info(self):
        w, c, t = self.w, self.c, self.t
        xy = self.pick_chip(any_chip=t.draw(4) == 0)
        which = t.draw(4)
        name = ["get_chip_info", "get_working_links", "get_num_working_cores",
                "get_ip_address"][which]
        w.trace.ev("op", name)
        w.ops.append("%s%r" % (name, xy))
        status, val = rigcall(w, self.allowed(), getattr(c.mc, name), xy[0],
                              xy[1])
        if status == "exc":
            if isinstance(val, c.scp.FatalReturnCodeError):
                w.probe("fatal_from_chip")
            return self.failed(name, val, xy)
        ch = self.m.chips[xy]
        tr = self.truth_chip(ch)
        if which == 0:
            self.check_chip_info(xy, val, name)
        elif which == 1 and set(val) != tr["working_links"]:
            w.violate("CI", "get_working_links%r = %r, machine has %r"
                      % (xy, sorted(val), sorted(tr["working_links"])),
                      kind="working-links")
        elif which == 2 and val != tr["num_cores"]:
            w.violate("CI", "get_num_working_cores%r = %r, machine has %d"
                      % (xy, val, tr["num_cores"]), kind="num-cores")
        elif which == 3:
            want = ch.ip if ch.eth_up else None
            if val != want:
                w.violate("CI", "get_ip_address%r = %r, machine has %r"
                          % (xy, val, want), kind="ip-address")
        w.ops[-1] += " -> ok"
        w.ops_completed += 1

    def op_p2p(self):
        w, c, m = self.w, self.c, self.m
        w.trace.ev("op", "p2p")
        w.ops.append("get_p2p_routing_table()")
        status, val = rigcall(w, self.allowed(), c.mc.get_p2p_routing_table,
                              255, 255)
        if status == "exc":
            return self.failed("get_p2p_routing_table", val)
        root = m.chips[m.root]
        want = {}
        for x in range(m.width):
            for y in range(m.height):
                ch = m.chips.get((x, y))
                if ch is None or ch.dead:
                    want[(x, y)] = 6
                elif ch is root:
                    want[(x, y)] = 7
                else:
                    want[(x, y)] = (x * 3 + y) % 6
        got = {k: int(v) for k, v in val.items()}
        if got != want:
            diff = sorted(k for k in set(got) | set(want)
                          if got.get(k) != want.get(k))[:4]
            w.violate("P2P", "P2P table differs at %r (got %r, machine %r)"
                      % (diff, [got.get(k) for k in diff],
                         [want.get(k) for k in diff]), kind="p2p-table")
        w.ops[-1] += " -> ok"
        w.ops_completed += 1

    def op_sver(self):
        w, c, m, t = self.w, self.c, self.m, self.t
        xy = self.pick_chip()
        ch = m.chips[xy]
        p = t.draw(len(ch.cores))
        w.trace.ev("op", "sver")
        w.ops.append("get_software_version(%d, %d, %d)" % (xy[0], xy[1], p))
        status, v = rigcall(w, self.allowed(), c.mc.get_software_version,
                            xy[0], xy[1], p)
        if status == "exc":
            return self.failed("get_software_version", v, xy)
        if m.semver is None:
            ver, labels = (m.version[0], m.version[1], 0), ""
        else:
            ver, labels = self.semver_expect
        want = (xy, (p * 5 + 1) % 18, p, ver, m.buffer_size, 1423145600,
                "SC&MP/SpiNNaker" if p == 0 else "SARK/SpiNNaker", labels)
        got = (tuple(v.position), v.physical_cpu, v.virt_cpu,
               tuple(v.software_version), v.buffer_size, v.build_date,
               v.version_string, v.software_version_labels)
        if got != want:
            w.violate("SV", "get_software_version%r p=%d = %r, machine has %r"
                      % (xy, p, got, want), kind="sver")
        w.ops[-1] += " -> ok"
        w.ops_completed += 1

    def op_status(self, force_big=False):
        w, c, m, t = self.w, self.c, self.m, self.t
        xy = self.pick_chip()
        ch = m.chips[xy]
        p = t.draw(len(ch.cores))
        which = t.draw(3)
        if which and t.draw(2) and self.iobuf_cores:
            # prefer a core that printed something
            xy, p = self.iobuf_cores[t.draw(len(self.iobuf_cores))]
            ch = m.chips[xy]
        if force_big:
            if not self.iobuf_cores:
                return
            which = 1 + t.draw(2)
            xy, p = self.iobuf_cores[0]
            ch = m.chips[xy]
        cr = ch.cores[p]
        name = ["get_processor_status", "get_iobuf", "get_iobuf_bytes"][which]
        w.trace.ev("op", name)
        w.ops.append("%s(%d, %d, %d)" % (name, p, xy[0], xy[1]))
        text_ok = True
        try:
            cr.iobuf.decode("utf-8")
        except UnicodeDecodeError:
            text_ok = False
        status, v = rigcall(w, self.allowed() + (
            (UnicodeDecodeError,) if which == 1 and not text_ok else ()),
            getattr(c.mc, name), p, xy[0], xy[1])
        if status == "exc" and isinstance(v, UnicodeDecodeError):
            # a console that does not hold text cannot be given as text
            w.ops[-1] += " -> UnicodeDecodeError"
            w.ops_completed += 1
            return
        if status == "exc":
            return self.failed(name, v, xy)
        if which == 1 and not text_ok:
            w.violate("IO", "get_iobuf %r core %d returned text %r... for a "
                      "console buffer that is not UTF-8 text: it is not what "
                      "the core printed" % (xy, p, v[:12]),
                      kind="iobuf-not-text")
        if which == 0:
            want = dict(cpu_state=cr.state, app_id=cr.app_id & 0xff,
                        app_name=cr.name[:16], phys_cpu=(p * 5 + 1) % 18,
                        version=(1, 2, 3), user_vars=list(cr.user),
                        time=1000 + cr.loads, registers=[0] * 8,
                        rt_code=0, sw_count=0)
            for k, val in want.items():
                got = getattr(v, k)
                if k in ("cpu_state", "rt_code"):
                    got = int(got)
                if got != val:
                    w.violate("PS", "get_processor_status %r core %d: %s = "
                              "%r, machine has %r" % (xy, p, k, got, val),
                              kind="processor-status", field=k)
            head = ch.mem.r32(ch.vcpu_base + VCPU_SIZE * p +
                              m.vcpu_fields["iobuf"].offset)
            if v.iobuf_address != head:
                w.violate("PS", "iobuf_address differs",
                          kind="processor-status", field="iobuf")
        else:
            want = cr.iobuf if which == 2 else cr.iobuf.decode("utf-8")
            if len(cr.iobuf) > m.iobuf_size:
                w.probe("iobuf_multi_block")
            if v != want:
                w.violate("IO", "%s %r core %d returned %d bytes %r..., the "
                          "core printed %d bytes %r..."
                          % (name, xy, p, len(v), v[:12], len(want),
                             want[:12]), kind="iobuf")
        w.ops[-1] += " -> ok"
        w.ops_completed += 1

    def op_diag(self):
        w, c, m = self.w, self.c, self.m
        xy = self.pick_chip()
        w.trace.ev("op", "diag")
        w.ops.append("get_router_diagnostics%r" % (xy,))
        status, v = rigcall(w, self.allowed(), c.mc.get_router_diagnostics,
                            xy[0], xy[1])
        if status == "exc":
            return self.failed("get_router_diagnostics", v, xy)
        if list(v) != m.chips[xy].diag or v.dropped_multicast != \
                m.chips[xy].diag[8]:
            w.violate("RD", "router diagnostics of %r differ" % (xy,),
                      kind="diagnostics")
        w.ops[-1] += " -> ok"
        w.ops_completed += 1

    # -- machine state generation --------------------------------------------
    def build(self):
        t, w, c = self.t, self.w, self.c
        big = self.tier == "thorough" and t.draw(25) == 0
        if big:
            w.probe("big_addressing")
            W = H = [64, 255][t.draw(2)]
        elif self.tier == "thorough" and t.draw(6) == 0:
            W, H = 13 + t.draw(20), 13 + t.draw(20)
        else:
            W, H = 1 + t.draw_small(12, 0.75), 1 + t.draw_small(12, 0.75)
        semver = None
        if t.draw(2):
            w.probe("semver")
            lab = ["", "-dev", "-rc1+build5", "-beta"][t.draw(4)]
            ver = (t.draw(4), t.draw(40), t.draw(10))
            semver = "%d.%d.%d%s" % (ver + (lab,))
            self.semver_expect = (ver, lab)
        else:
            w.probe("legacy_version")
        m = SimMachine.__new__(SimMachine)
        SimMachine.__init__(m, w, c.net, width=1, height=1,
                            buffer_size=c.buffer_size,
                            version=(1 + t.draw(3), t.draw(100)),
                            semver=semver,
                            iobuf_size=[16, 64, 1024, 16384][t.draw(4)],
                            torus=bool(t.draw(2)))
        m.width, m.height = W, H
        if big:
            # sparse: root block plus a far block (addressing up to 255)
            for (bx, by) in [(0, 0), (W - 4, H - 4), (W - 4, 0)]:
                for x in range(bx, bx + 2 + t.draw(3)):
                    for y in range(by, by + 2 + t.draw(3)):
                        if (x, y) not in m.chips:
                            m.chips[(x, y)] = Chip(m, x, y, 18)
        else:
            for x in range(W):
                for y in range(H):
                    if (x, y) not in m.chips:
                        m.chips[(x, y)] = Chip(m, x, y, 18)
        c.machine = self.m = m
        if t.draw(3) == 0:
            m.vary_layout()
            w.probe("per_chip_layout")
        # global busy pattern: cores busy on every chip
        gl = {0: ST_RUN}
        for _ in range(t.draw_small(4, 0.5)):
            gl[1 + t.draw(17)] = STATES[t.draw(len(STATES))]
        n_chips = len(m.chips)
        for xy, ch in sorted(m.chips.items()):
            n = 18 if t.draw(3) else 1 + t.draw(18)
            ch.cores = ch.cores[:n]
            for p, s in gl.items():
                if p < n:
                    ch.cores[p].state = s
                    ch.cores[p].app_id = 20 + p
                    ch.cores[p].name = "glob%d" % p
            if t.draw(3) == 0:
                for _ in range(1 + t.draw(3)):
                    p = t.draw(n)
                    if p:
                        ch.cores[p].state = STATES[t.draw(len(STATES))]
                        ch.cores[p].app_id = 1 + t.draw(255)
                        ch.cores[p].name = "app%d" % t.draw(99)
                        if t.draw(5) == 0:
                            # a name filling the 16-byte field (no NUL), or
                            # one short of it, or empty
                            ch.cores[p].name = [
                                "sixteen_chars_%02d" % t.draw(99),
                                "fifteen_char_%02d" % t.draw(99), ""][
                                    t.draw(3)]
                        ch.cores[p].user = [t.draw(1 << 32) for _ in range(4)]
            if t.draw(4) == 0:
                # some cores idle even where the global pattern says busy
                p = 1 + t.draw(17)
                if p < n:
                    ch.cores[p].state = ST_IDLE
            if t.draw(3) == 0:
                p = t.draw(n)
                ln = [5, m.iobuf_size, m.iobuf_size + 1,
                      3 * m.iobuf_size + 7][t.draw(4)]
                ln = min(ln, 5000)
                if m.iobuf_size == 16384 and not self.huge_console and \
                        t.draw(40 if self.tier == "thorough" else 1200) == 0:
                    # a console of more than 8 MiB (hundreds of blocks)
                    ln = (8 << 20) + 16384 * (1 + t.draw(40)) + t.draw(999)
                    self.huge_console = True
                    w.probe("iobuf_over_8MiB")
                pat = bytes(32 + ((i * 7 + p) % 90) for i in range(90))
                ch.cores[p].iobuf = (pat * (ln // 90 + 1))[:ln]
                k = t.draw(6)
                if k == 0 and ln >= 5:
                    # not text at all (the console holds whatever the
                    # application wrote): bytes that are no valid UTF-8
                    b_ = bytearray(ch.cores[p].iobuf)
                    b_[ln // 2] = 0xe9
                    b_[-1] = 0xff
                    ch.cores[p].iobuf = bytes(b_)
                    w.probe("iobuf_not_utf8")
                elif k == 1 and ln >= 5:
                    # valid multi-byte characters
                    ch.cores[p].iobuf = (ch.cores[p].iobuf[:ln - 4] +
                                         "\u00e9\u20ac".encode("utf-8"))[:ln + 1]
            for l in range(6):
                if t.draw(8) == 0:
                    ch.links_up.discard(l)
            for _ in range(t.draw_small(3, 0.4)):
                ch.sdram.alloc(4 * t.draw(50000), 1 + t.draw(200), 0)
            if t.draw(3) == 0:
                ch.sysram.alloc(4 * t.draw(2000), 5, 0)
            for _ in range(t.draw_small(3, 0.4)):
                ch.rtr_alloc(1 + t.draw(400), 1 + t.draw(200))
            if not ch.rtr_blocks and t.draw(4) == 0:
                # reports every one of its 1024 entries as free
                ch.rtr_entry0_reserved = False
                w.probe("router_all_1024_free")
            ch.diag = [t.edge(1 << 32) for _ in range(16)]
            if xy != m.root:
                k = t.draw(20 if n_chips < 30 else 40)
                if k == 0:
                    ch.dead = True
                    w.probe("dead_chip")
                    w.fault("dead_chip")
                elif k == 1:
                    ch.unresponsive = ["silent", "p2p_timeout"][t.draw(2)]
                    w.probe("unresponsive_chip")
                    w.fault("unresponsive_chip")
            if t.draw(6) == 0 and xy != m.root:
                ch.ip = "10.1.%d.%d" % (xy[0], xy[1])
                ch.eth_up = bool(t.draw(2))
            ch.local_eth = (t.draw(W), t.draw(H)) if t.draw(4) == 0 else m.root
        m.on_command = self.on_command
        c.net.on_rx = self.on_rx
        c.net.on_tx = self.on_tx
        self.all_chips = sorted(m.chips)
        self.good_chips = sorted(xy for xy, ch in m.chips.items()
                                 if not ch.dead and not ch.unresponsive)
        self.iobuf_cores = [(xy, p) for xy in self.good_chips
                            for p, cr in enumerate(m.chips[xy].cores)
                            if cr.iobuf]
        big_ = [(xy, p) for (xy, p) in self.iobuf_cores
                if len(m.chips[xy].cores[p].iobuf) > (8 << 20)]
        if big_:
            # (worth reading when it is there)
            self.iobuf_cores = big_ * 3 + self.iobuf_cores

    def run(self):
        t, w = self.t, self.w
        c = self.c = Ctl(w, allowed_faults=FAULTS, buffers=BUFFERS,
                         fifo_requests=False, n_tries_range=(1, 4),
                         timeouts=[0.02, 0.1, 0.5])
        self.Links = rig_module("rig.links").Links
        self.AppState = rig_module("rig.machine_control.consts").AppState
        self.par = rig_module("rig.place_and_route")
        self.parutils = rig_module("rig.place_and_route.utils")
        self.rtutils = rig_module("rig.routing_table.utils")
        self.build()
        m = self.m
        try:
            c.start()
            w.ops.append("config %dx%d chips=%d dead=%d unresponsive=%d %s"
                         % (m.width, m.height, len(m.chips),
                            sum(ch.dead for ch in m.chips.values()),
                            sum(bool(ch.unresponsive)
                                for ch in m.chips.values()), c.describe()))
            n_ops = t.op_count(1, 6)
            for _ in range(n_ops):
                t.next_segment()
                k = t.weighted([4, 3, 1, 2, 3, 1])
                [self.op_system_info, self.op_chip_info, self.op_p2p,
                 self.op_sver, self.op_status, self.op_diag][k]()
            c.heal()
            t.begin_tail()
            self.op_system_info(heal=True)
            if t.draw(3) == 0:
                self.op_get_machine()
            if self.huge_console:
                # the long console is read over the quiet network
                self.op_status(force_big=True)
        finally:
            c.close()
        return {"machine": "%dx%d" % (m.width, m.height)}


def run(world, tier, prop):
    return ProbeEngine(world, tier).run()
