"""C20 - boot sends the complete image carrying this call's options only.

Real: boot.boot, boot_packet, struct_file.read_struct_file/Struct,
MachineController.boot.  Peer: boot-ROM endpoint + the unbooted -> booting ->
booted state machine.  Monitor at the socket ``send`` seam.
"""
import io
import os
import re

from rigsim import wire
from rigsim.seams import rig_module
from rigsim.machine import sark_structs
from .common import Ctl, rigcall, MC_MODULES

RIG_MODULES = MC_MODULES
COMPONENTS_REAL = ["rig.machine_control.boot.boot / boot_packet",
                   "struct_file.read_struct_file / Struct.pack / "
                   "update_default_values", "MachineController.boot / "
                   "get_software_version", "bundled scamp.boot and "
                   "sark.struct (read from disk)"]
COMPONENTS_STUB = ["UDP network, clock, sleep (simulated)", "boot ROM "
                   "endpoint on port 54321 (block assembly, boots iff the "
                   "image is complete), unbooted->booting->booted machine",
                   "in-memory boot images / struct files via boot.open"]

# boot() keeps state between calls when the property is broken: every run (and
# every shrink candidate and replay) executes in a forked pristine process
ISOLATE = True

PRESETS = ["spin1_boot_options", "spin2_boot_options", "spin3_boot_options",
           "spin4_boot_options", "spin5_boot_options"]


def plan(tier, prop):
    quick = tier == "quick"
    return {
        "runs": 4000 if quick else 300000,
        "budget_s": 50 if quick else 800,
        "chunk": 40 if quick else 200,
        "rule": "each run = a history of 1-5 boots in one process (boot.boot "
                "directly or MachineController.boot) with option sets drawn "
                "from the five presets, arbitrary sv overrides, none, explicit "
                "sv_overrides dicts re-used by the caller, images of 512 .. "
                "32764 bytes or the bundled one; non-trivial = at least one "
                "boot completed; distinct = distinct abstract event traces",
        "expected_probes": ["partial_preset",
                            "bundled_image", "drawn_image", "preset",
                            "explicit_dict", "dict_reused", "no_options",
                            "mc_boot", "mc_boot_already_booted",
                            "mc_boot_failed", "max_size_image",
                            "short_last_block", "send_error_reached_caller",
                            "deprecated_dimensions", "zero_tail_image", "sv_boot_delay_override"],
        "knob_ranges": {"image_bytes": "512..32764 (word multiples) or "
                        "bundled scamp.boot", "boots": "1-5",
                        "boot_delay": [0.0, 0.01, 0.05],
                        "options": "presets / 0-4 arbitrary sv fields / none"},
        "assumptions": [
            "boot images contain the configuration area (>= 512 bytes) and "
            "are whole words below 32 KiB", "array-typed sv fields are not "
            "overridden (their packing is not documented)",
            "no timing between datagrams is asserted (the statement gives "
            "none)", "the word-count field of a block datagram is not judged "
            "(undocumented for short blocks)"],
    }


class BootEngine(object):
    def __init__(self, world, tier):
        self.w = world
        self.t = world.tape
        self.files = {}
        self.cur = None
        self.clock_seen = []

    def fake_open(self, path, mode="r", *a, **k):
        if path in self.files:
            return io.BytesIO(self.files[path])
        return open(path, mode, *a, **k)

    def on_tx(self, sock, payload):
        if sock.peer[1] == self.boot_port and self.cur is not None:
            self.cur.append(payload)
            self.w.trace.ev("boot-tx", len(payload))

    # -- boot ROM ------------------------------------------------------------
    def boot_rom(self, host_ip):
        st = {"blocks": {}, "n": None}

        def handler(payload, reply, sock):
            if self.machines[host_ip].booted:
                return
            p = wire.parse_boot(payload)
            if p is None:
                return
            ver, cmd, a1, a2, a3, data, tail = p
            if cmd == 1:
                st["blocks"] = {}
                st["n"] = a3 + 1
            elif cmd == 3:
                st["blocks"][a1 & 0xff] = data
            elif cmd == 5:
                n = st["n"]
                if n is not None and sorted(st["blocks"]) == list(range(n)):
                    m = self.machines[host_ip]
                    self.w.trace.ev("rom-complete", n)
                    self.w.sim.after(self.boot_time, self._booted, m)
                st["n"] = None
        return handler

    def _booted(self, m):
        m.booted = True
        m.p2p_unknown_until = self.w.sim.now + self.unknown_for
        self.w.trace.ev("machine-booted")

    # -- oracle for one boot -------------------------------------------------
    def check_boot(self, dgrams, image, options, tmin, tmax, structs):
        w = self.w
        if not dgrams:
            w.violate("B", "boot sent no datagram", kind="nothing-sent")
            return
        p = [wire.parse_boot(d) for d in dgrams]
        if any(x is None for x in p):
            w.violate("B", "boot datagram shorter than its header",
                      kind="short-datagram")
            return
        for x in p:
            if x[0] != 1:
                w.violate("B", "boot datagram with protocol version %d"
                          % x[0], kind="version")
            if x[6]:
                w.violate("B", "boot datagram payload is not whole words",
                          kind="payload-words")
        n_expected = (len(image) + 1023) // 1024
        if p[0][1] != 1 or p[0][5]:
            w.violate("B", "first datagram is not a bare start command "
                      "(cmd %d, %d payload bytes)" % (p[0][1], len(p[0][5])),
                      kind="start")
        if p[0][2] or p[0][3]:
            w.violate("B", "start command carries arguments %#x, %#x besides "
                      "the block count" % (p[0][2], p[0][3]),
                      kind="start-args")
        n = p[0][4] + 1
        blocks = p[1:-1]
        if len(blocks) != n:
            w.violate("B", "start announces %d blocks, %d block datagrams "
                      "sent" % (n, len(blocks)), kind="block-count")
        if n != n_expected:
            w.violate("B", "%d blocks announced for an image of %d bytes"
                      % (n, len(image)), kind="block-count-image")
        out = b""
        for i, x in enumerate(blocks):
            if x[1] != 3:
                w.violate("B", "datagram %d is command %d, expected a block"
                          % (i + 1, x[1]), kind="block-cmd")
            if (x[2] & 0xff) != i:
                w.violate("B", "block %d is numbered %d" % (i, x[2] & 0xff),
                          kind="block-number")
            # (the size field is that of a full block - 256 words, stored
            # minus one - whatever the payload, and nothing else is set)
            if x[2] >> 8 != 255 or x[3] or x[4]:
                w.violate("B", "block %d carries size field %#x and "
                          "arguments %#x, %#x; expected 0xff, 0, 0"
                          % (i, x[2] >> 8, x[3], x[4]), kind="block-args")
            if len(x[5]) > 1024:
                w.violate("B", "block %d carries %d bytes (> 1 KiB)"
                          % (i, len(x[5])), kind="block-size")
            out += x[5]
        if blocks and len(blocks[-1][5]) < 1024:
            w.probe("short_last_block")
        if p[-1][1] != 5 or p[-1][2] != 1 or p[-1][5] or p[-1][3] or \
                p[-1][4]:
            w.violate("B", "last datagram is not the end command (cmd %d, "
                      "arg1 %d)" % (p[-1][1], p[-1][2]), kind="end")
        if len(out) != len(image):
            w.violate("B", "blocks reassemble to %d bytes; the image has %d"
                      % (len(out), len(image)), kind="image-length")
        if out[:384] != image[:384] or out[512:] != image[512:]:
            i = next(i for i in range(len(image))
                     if not 384 <= i < 512 and out[i] != image[i])
            w.violate("B", "reassembled image differs from the boot image at "
                      "byte %d" % i, kind="image-bytes")
        # configuration area
        sv = self.sv_cur
        ov = dict(options)
        ov["root_chip"] = 1
        got = out[384:512]
        lo = dict(ov, unix_time=int(tmin), boot_sig=int(tmin))
        exp = wire.pack_struct_defaults(sv, lo)[:128]
        ut = sv["fields"]["unix_time"]
        bs = sv["fields"]["boot_sig"]
        masked_got = bytearray(got)
        masked_exp = bytearray(exp)
        for f in (ut, bs):
            if f.offset + 4 <= 128:
                masked_got[f.offset:f.offset + 4] = b"\0\0\0\0"
                masked_exp[f.offset:f.offset + 4] = b"\0\0\0\0"
        if masked_got != masked_exp:
            i = next(i for i in range(128) if masked_got[i] != masked_exp[i])
            fld = [f.name for f in sv["fields"].values()
                   if f.offset <= i < f.offset + f.size * f.length]
            w.violate("CFG", "configuration area byte %d (field %s) is %#04x; "
                      "this call's options give %#04x"
                      % (i, fld, masked_got[i], masked_exp[i]),
                      kind="config-area", field=(fld or ["?"])[0],
                      leaked=bool(self.history_fields & set(fld)))
        for f in (ut, bs):
            if f.offset + 4 <= 128:
                v = int.from_bytes(got[f.offset:f.offset + 4], "little")
                if not int(tmin) <= v <= int(tmax) + 1:
                    w.violate("CFG", "%s in the configuration area is %d; the "
                              "call ran during [%d, %d]"
                              % (f.name, v, int(tmin), int(tmax)),
                              kind="config-time")
        # returned structs describe the same values
        if structs is not None:
            rsv = structs[b"sv"]
            for name, val in ov.items():
                d = rsv[name.encode()].default
                if d != val:
                    w.violate("ST", "returned struct says sv.%s defaults to "
                              "%r; this call set %r" % (name, d, val),
                              kind="returned-struct", field=name)
            for f in (ut, bs):
                # the two time stamps: whatever was sent is what is reported
                if f.offset + 4 <= 128:
                    v = int.from_bytes(got[f.offset:f.offset + 4], "little")
                    d = rsv[f.name.encode()].default
                    if d != v:
                        w.violate("ST", "returned struct says sv.%s is %r; "
                                  "the configuration area sent carries %r"
                                  % (f.name, d, v), kind="returned-struct",
                                  field=f.name)
            for f in sv["fields"].values():
                if f.name in ov or f.name in ("unix_time", "boot_sig"):
                    continue
                d = rsv[f.name.encode()].default
                if d != f.default:
                    w.violate("ST", "returned struct says sv.%s defaults to "
                              "%r; the struct file says %r and this call did "
                              "not override it" % (f.name, d, f.default),
                              kind="returned-struct-leak", field=f.name)

    # -- one boot ------------------------------------------------------------
    def draw_options(self):
        t = self.t
        mode = t.weighted([2, 3, 3, 2, 2])
        opts = {}
        if mode == 4:
            # some of the options of a board preset (e.g. the hardware
            # version without the LED wiring, or the reverse), maybe with
            # other values
            self.w.probe("partial_preset")
            for k, v in sorted(getattr(self.bootmod,
                                       PRESETS[t.draw(5)]).items()):
                if t.draw(2):
                    opts[k] = v if t.draw(3) else t.draw_small(8, 0.6)
        if mode == 0:
            self.w.probe("no_options")
        if mode in (1, 3):
            self.w.probe("preset")
            opts.update(getattr(self.bootmod, PRESETS[t.draw(5)]))
        if mode in (2, 3):
            fields = [f for f in self.sv["fields"].values()
                      if f.length == 1 and f.kind != "s" and
                      f.name not in ("unix_time", "boot_sig", "root_chip")]
            for _ in range(1 + t.draw(4)):
                f = fields[t.draw(len(fields))]
                opts[f.name] = t.draw(1 << (8 * f.size)) if t.draw(3) else \
                    t.draw_small(min(8, 1 << (8 * f.size)), 0.6)
        return opts

    def send_hook(self, sock, data):
        if self.fail_at is None or self.fail_fired or \
                sock.peer[1] != self.boot_port:
            return False
        self.n_boot_sends += 1
        if self.n_boot_sends - 1 == self.fail_at:
            self.fail_fired = True
            return True
        return False

    def send_exc(self):
        return (OSError,) if self.fail_at is not None else ()

    def send_failed(self, status, val, what):
        """The socket error of a failed send reaches the caller (a call that
        carries on instead is judged by the datagrams that did go out)."""
        w = self.w
        if status != "exc" or not isinstance(val, OSError):
            return False
        if not self.fail_fired:
            w.violate("E", "%s raised %s although every send succeeded"
                      % (what, type(val).__name__),
                      kind="unexpected-exception", exc=type(val).__name__)
        w.probe("send_error_reached_caller")
        w.ops[-1] += " -> %s (send #%d failed)" % (type(val).__name__,
                                                   self.fail_at)
        self.cur = None
        w.ops_completed += 1
        return True

    def op_boot(self, heal=False):
        t, w = self.t, self.w
        host = "board%d" % t.draw(len(self.machines))
        ip = self.net.hosts[host]
        opts = self.draw_options()
        # how the caller passes them
        kwargs = {}
        intended = dict(opts)
        how = t.draw(3)
        # names that cannot be keyword arguments: dotted ones, and the system
        # variable that shares its name with boot()'s own boot_delay argument
        dotted = [k for k in opts if "." in k or k == "boot_delay"]
        if "boot_delay" in opts:
            w.probe("sv_boot_delay_override")
        if how == 0 and not dotted:
            kwargs.update(opts)
        else:
            w.probe("explicit_dict")
            if self.caller_dict is not None and t.draw(2):
                # the caller re-uses a dict made for an earlier boot
                w.probe("dict_reused")
                d = self.caller_dict
                intended = dict(self.caller_dict_intended)
                extra = {k: v for k, v in opts.items() if k not in dotted}
                if t.draw(2):
                    kwargs.update(extra)
                    intended.update(extra)
            else:
                d = {}
                half = sorted(opts)[:len(opts) // 2 + 1] if how == 1 else \
                    sorted(opts)
                for k in sorted(opts):
                    if k in half or k in dotted:
                        d[k] = opts[k]
                    else:
                        kwargs[k] = opts[k]
                self.caller_dict = d
                self.caller_dict_intended = dict(d)
            kwargs["sv_overrides"] = d
        # image
        if t.draw(3) == 0:
            w.probe("bundled_image")
            image = self.bundled
        else:
            w.probe("drawn_image")
            size = 4 * [128, 129, 255, 256, 257, 512, 8190, 8191,
                        128 + t.draw(8064)][t.draw(9)]
            if size == 32764:
                w.probe("max_size_image")
            image = t.bytes(512) + bytes((i * 31 + size) & 0xff
                                         for i in range(size - 512))
            if t.draw(4) == 0:
                # ends in zero-initialised data (part of a block, a whole
                # block, several blocks)
                w.probe("zero_tail_image")
                nz = min([4, 100, 1024, 1500, 3072, 8192][t.draw(6)],
                         size - 512)
                image = image[:size - nz] + bytes(nz)
            if self.image_paths and t.draw(3) == 0:
                # the image was rebuilt in place: a path an earlier boot of
                # this process already used, with other contents now
                w.probe("image_path_reused")
                name = self.image_paths[t.draw(len(self.image_paths))]
            else:
                name = "/sim/boot%d.bin" % len(self.files)
                self.image_paths.append(name)
            self.files[name] = image
            kwargs["scamp_binary"] = name
        # struct file: the bundled one, or the caller's own (the bundled text
        # with other defaults for a few system variables), which may also have
        # been edited in place since an earlier boot
        self.sv_cur = self.sv
        if t.draw(4) == 0:
            w.probe("own_struct_file")
            text = self.struct_text
            for _ in range(1 + t.draw(3)):
                fname, val = [("cpu_clk", 100 + t.draw(200)),
                              ("mem_clk", 100 + t.draw(200)),
                              ("led_period", t.draw(256)),
                              ("netinit_bc_wait", t.draw(256)),
                              ("p2p_root", t.draw(65536)),
                              ("num_buf", t.draw(256)),
                              ("root_chip", t.draw(2))][t.draw(7)]
                # (numbers in a struct file are decimal or 0x-hexadecimal,
                # in either letter case, decimal possibly zero-padded to a
                # column width)
                tok = [str(val), hex(val), "0X%X" % val, "%04d" % val,
                       "0%d" % val][t.weighted([4, 2, 1, 1, 1])].encode()
                text = re.sub((r"(?m)^(%s\s+\S+\s+\S+\s+\S+\s+)\S+"
                               % fname).encode(),
                              lambda mo: mo.group(1) + tok, text)
            if t.draw(2) == 0:
                # one-byte variables declared signed, with negative defaults
                cands = [f.name for f in self.sv["fields"].values()
                         if f.kind == "B" and f.length == 1 and
                         f.offset < 128 and f.name not in intended and
                         f.name not in ("root_chip",)]
                for _ in range(1 + t.draw(2)):
                    fname = cands[t.draw(len(cands))]
                    val = -[1, 2, 9, 10, 16, 40, 100, 127, 128][t.draw(9)]
                    text = re.sub(
                        (r"(?m)^(%s\s+)C(\s+\S+\s+\S+\s+)\S+"
                         % re.escape(fname)).encode(),
                        lambda mo: mo.group(1) + b"c" + mo.group(2) +
                        str(val).encode(), text)
                w.probe("struct_file_signed_negative")
            if self.struct_paths and t.draw(2) == 0:
                w.probe("struct_path_reused")
                sname = self.struct_paths[t.draw(len(self.struct_paths))]
            else:
                sname = "/sim/sark%d.struct" % len(self.files)
                self.struct_paths.append(sname)
            self.files[sname] = text
            kwargs["sark_struct"] = sname
            self.sv_cur = wire.parse_struct_file(text)["sv"]
        kwargs["boot_delay"] = [0.0, 0.01, 0.05][t.draw(3)]
        via_mc = bool(t.draw(3) == 0) or heal
        m = self.machines[ip]
        # a send() of this call that fails (nothing leaves the host)
        self.fail_at = None
        self.fail_fired = False
        self.n_boot_sends = 0
        if self.send_errors and not heal and t.draw(3) == 0:
            self.fail_at = t.draw_small(40, 0.85)
        self.cur = []
        self.clock_seen = []
        tmin = w.sim.host_now
        label = "%s(%s, %s%s)" % (
            "mc.boot" if via_mc else "boot.boot", host,
            ", ".join("%s=%s" % (k, (sorted(v.items()) if isinstance(v, dict)
                                     else v)) for k, v in sorted(
                                         kwargs.items())),
            " [image %d bytes]" % len(image))
        w.trace.ev("op", "boot")
        w.ops.append(label)
        structs = None
        if via_mc:
            w.probe("mc_boot")
            was_booted = m.booted
            only = bool(t.draw(2))
            check = bool(t.draw(4)) or heal
            mc = self.mcmod.MachineController(host, n_tries=1 + t.draw(2),
                                              timeout=0.05,
                                              boot_port=self.boot_port)
            kwargs["post_boot_delay"] = 2.0
            # the deprecated (and documented as ignored) machine dimensions
            dims_pos, dims_kw = (), {}
            how_dims = t.weighted([5, 1, 1])
            if how_dims:
                w.probe("deprecated_dimensions")
                dims = (1 + t.draw(48), 1 + t.draw(48))
                if how_dims == 1:
                    dims_pos = dims
                else:
                    dims_kw = {"width": dims[0], "height": dims[1]}
                w.ops[-1] += " [width,height=%r %s]" % (
                    dims, "positional" if dims_pos else "keyword")
            status, val = rigcall(
                w, (self.mcmod.SpiNNakerBootError, self.scp.TimeoutError) +
                self.send_exc(),
                mc.boot, *dims_pos, only_if_needed=only, check_booted=check,
                **dict(kwargs, **dims_kw))
            lossy = self.policy.active and self.policy.rate("req_loss") > 0
            if self.send_failed(status, val, "MachineController.boot"):
                return
            if status == "ok" and val is False:
                w.probe("mc_boot_already_booted")
                # (a boot sent earlier with a short post_boot_delay may
                # complete while this call is probing: judge the machine's
                # state now, not at the start of the call)
                if not (only and m.booted):
                    w.violate("MC", "MachineController.boot returned False "
                              "(already booted) but the machine is %s and "
                              "only_if_needed=%r" % (
                                  "booted" if m.booted else "not booted",
                                  only), kind="false-return")
                if self.cur:
                    w.violate("MC", "boot datagrams sent to a machine "
                              "reported as already booted", kind="reboot")
                w.ops[-1] += " -> False"
                self.cur = None
                w.ops_completed += 1
                return
            if status == "exc":
                w.probe("mc_boot_failed")
                if isinstance(val, self.scp.TimeoutError):
                    w.violate("MC", "MachineController.boot leaked %s"
                              % type(val).__name__, kind="leaked-timeout")
                if not lossy and not was_booted and not m.booted:
                    w.violate("MC", "nothing was lost but "
                              "MachineController.boot raised %s"
                              % type(val).__name__, kind="boot-failed-clean")
                w.ops[-1] += " -> " + type(val).__name__
                # an image carrying this call's options went out: the
                # controller's struct definitions describe it, whether or not
                # the machine came up
                if self.cur:
                    structs = mc.structs
            else:
                if check and not m.booted:
                    w.violate("MC", "MachineController.boot returned True "
                              "with check_booted but the machine is not "
                              "booted", kind="true-unbooted")
                if check and not was_booted:
                    # later commands see the booted machine
                    st2, v2 = rigcall(w, (self.scp.TimeoutError,),
                                      mc.get_software_version, 255, 255, 0)
                    if st2 == "ok" and v2.position != m.root:
                        w.violate("MC", "after boot the machine reports "
                                  "position %r" % (v2.position,),
                                  kind="post-boot-position")
                structs = mc.structs
                w.ops[-1] += " -> True"
            if only and was_booted and status == "ok":
                pass
        else:
            status, val = rigcall(w, self.send_exc(), self.bootmod.boot, host,
                                  boot_port=self.boot_port,
                                  post_boot_delay=[0.0, 2.0][t.draw(2)],
                                  **kwargs)
            if self.send_failed(status, val, "boot.boot"):
                return
            if status == "ok":
                structs = val
                w.ops[-1] += " -> ok"
        tmax = max([w.sim.host_now] + self.clock_seen)
        tmin = min([tmin] + self.clock_seen)
        dgrams = self.cur
        self.cur = None
        if dgrams:
            self.check_boot(dgrams, image, intended, tmin, tmax, structs)
        elif not via_mc:
            w.violate("B", "boot.boot sent nothing", kind="nothing-sent")
        # caller's dict must still say what the caller put in it
        if "sv_overrides" in kwargs and \
                kwargs["sv_overrides"] != self.caller_dict_intended and \
                kwargs["sv_overrides"] is self.caller_dict:
            extra = sorted(set(kwargs["sv_overrides"]) -
                           set(self.caller_dict_intended))
            self.w.violate("HIST", "boot() added %r to the caller's "
                           "sv_overrides dict: a later boot given the same "
                           "dict carries options it never asked for"
                           % (extra,), kind="caller-dict-mutated")
            self.caller_dict = dict(self.caller_dict_intended)
        self.history_fields |= set(intended)
        w.ops_completed += 1

    def run(self):
        t, w = self.t, self.w
        from rigsim.net import SimNetwork, FaultPolicy
        from rigsim.seams import Seams, install_net
        from rigsim.machine import SimMachine
        lossy = t.draw(4) == 0
        rates = {"req_loss": [0.02, 0.2][t.draw(2)]} if lossy else {}
        if t.draw(3) == 0:
            # sleeps (the pauses between boot datagrams, the wait for the
            # machine to come up) last longer than asked
            rates["sleep_overshoot"] = [0.1, 0.5][t.draw(2)]
        if t.draw(4) == 0:
            # connecting (looking the host name up) takes up to seconds
            rates["slow_connect"] = 0.5
        self.policy = FaultPolicy(rates, timeout=0.05, jitter=0.0,
                                  fifo_requests=True)
        self.net = SimNetwork(w, self.policy)
        self.net.on_tx = self.on_tx
        self.net.send_fail_hook = self.send_hook
        self.send_errors = t.draw(4) == 0
        self.boot_port = [54321, 54321, 12345][t.draw(3)]
        self.boot_time = [0.5, 1.5, 1.9][t.draw(3)]
        self.unknown_for = [0.0, 0.25, 1.0][t.draw(3)]
        self.seams = Seams()
        self.sv = sark_structs()["sv"]
        self.sv_cur = self.sv
        self.image_paths, self.struct_paths = [], []
        with open(os.path.join(os.environ.get("VERIF_REPO", "/repo"), "rig",
                               "boot", "sark.struct"), "rb") as f:
            self.struct_text = f.read()
        self.caller_dict = None
        self.caller_dict_intended = None
        self.history_fields = set()
        self.machines = {}
        n_m = 1 + t.draw(3)
        for i in range(n_m):
            ip = "10.0.%d.1" % i
            m = SimMachine(w, self.net, width=1, height=1, root=(0, 0),
                           ip_base="10.0.%d." % i)
            m.booted = bool(t.draw(4) == 0)
            m.finish()
            self.net.hosts["board%d" % i] = ip
            self.net.register(ip, self.boot_port, self.boot_rom(ip))
            self.machines[ip] = m
        try:
            _s, _sel, tim = install_net(self.seams, self.net)
            orig = tim.time

            def spy():
                v = orig()
                self.clock_seen.append(v)
                return v
            tim.time = spy
            self.bootmod = rig_module("rig.machine_control.boot")
            self.mcmod = rig_module("rig.machine_control.machine_controller")
            self.scp = rig_module("rig.machine_control.scp_connection")
            self.seams.set("rig.machine_control.boot", "open", self.fake_open)
            path = os.path.join(os.path.dirname(self.bootmod.__file__), "..",
                                "boot", "scamp.boot")
            with open(path, "rb") as f:
                self.bundled = f.read()
            w.ops.append("config machines=%d boot_port=%d boot_time=%g "
                         "unknown_for=%g loss=%s"
                         % (n_m, self.boot_port, self.boot_time,
                            self.unknown_for, self.policy.describe()))
            n_ops = t.op_count(1, 5)
            for _ in range(n_ops):
                t.next_segment()
                self.op_boot()
            self.net.heal()
            w.sim.drain(5.0)
            t.begin_tail()
            self.op_boot(heal=True)
        finally:
            self.seams.restore()
        return {"machines": n_m}


def run(world, tier, prop):
    return BootEngine(world, tier).run()
