"""C18 - commands go to the chip, core and application the caller named.

Real: ContextMixin, Context, the decorated methods of MachineController and
BMPController, _get_connection, discover_connections, BMPController._send_scp,
application().  Peer: a multi-board machine with one endpoint per board and
BMP endpoints; every endpoint records which datagrams arrived on it.

Oracle: an independent resolver (explicit > innermost context that sets it >
declared default) predicts (x, y, p, app_id | cabinet, frame, board) per call;
every datagram of the call must carry those values and arrive at the endpoint
of the board that holds the target chip when that board's connection is known
(board membership from the simulator's own 48-chip tile, not rig.geometry).
"""
from rigsim import wire
from rigsim.machine import SimMachine, Chip, VCPU_BASE, VCPU_SIZE, SV_BASE, \
    RC_OK
from rigsim.seams import rig_module
from .common import Ctl, rigcall, MC_MODULES

RIG_MODULES = MC_MODULES + ["rig.machine_control.bmp_controller",
                            "rig.geometry", "rig.links", "rig.routing_table"]
COMPONENTS_REAL = [
    "rig.utils.contexts.ContextMixin / Context / Required / "
    "use_contextual_arguments", "MachineController: every decorated method "
    "used below, _get_connection, _send_scp, discover_connections, "
    "application", "BMPController: get_software_version, set_power, set_led, "
    "read_fpga_reg, write_fpga_reg, read_adc, send_scp, _send_scp",
    "rig.geometry.spinn5_eth_coords / spinn5_local_eth_coord (through "
    "MachineController)", "SCPConnection"]
COMPONENTS_STUB = ["UDP network/select/clock (simulated)",
                   "multi-board SpiNNaker machine (SpiNN-5 tiling computed "
                   "from the 48-chip tile), one SCP endpoint per board",
                   "BMP endpoints (sver, power, led, FPGA registers, ADC)"]

# the 48-chip SpiNN-5 tile: for each row dy the range of dx on the board
# every run in a forked child of a process that has only imported rig: the
# controllers' contexts start from module-level defaults, and a change under
# test that lets one controller's context leak into those defaults would
# otherwise make a run's outcome depend on the runs before it in that worker
ISOLATE = True

BOARD_ROWS = {0: (0, 4), 1: (0, 5), 2: (0, 6), 3: (0, 7), 4: (1, 7),
              5: (2, 7), 6: (3, 7), 7: (4, 7)}
TRIAD_ETH = [(0, 0), (4, 8), (8, 4)]

FAULTS = ["req_loss", "rep_loss", "rep_delay", "rep_dup", "retryable_rc",
          "fatal_rc", "partition", "transient_busy", "rep_batch",
          "spurious_wakeup"]


def plan(tier, prop):
    quick = tier == "quick"
    return {
        "runs": 6000 if quick else 300000,
        "budget_s": 50 if quick else 800,
        "chunk": 20 if quick else 100,
        "rule": "each run = one machine (1, 3, 6 or 12 SpiNN-5 boards, any "
                "root-chip offset, some Ethernet links down, connections "
                "discovered or not) + a BMP controller, and a program of 1-12 "
                "top-level items: nested with-blocks (context / application), "
                "update_current_context, method calls passing each contextual "
                "argument positionally / by keyword / by context / by default "
                "/ not at all, bodies that raise at any depth; non-trivial = "
                "at least one command call was judged; distinct = distinct "
                "abstract event traces",
        "expected_probes": ["exit_by_scp_error", "block_inside_except_handler", "led_iterable", "enum_member_argument",
                            "explicit_positional", "explicit_keyword",
                            "from_context", "from_default", "missing_required",
                            "nested_depth_3", "exit_by_exception",
                            "application_block", "stop_signal_failed",
                            "update_context", "other_board_connection",
                            "fallback_initial_host", "bmp_call",
                            "bmp_board_specific_connection", "scp_failure",
                            "context_object_reused",
                            "context_object_reentered_while_active",
                            "bmp_board_iterable", "discovery_under_faults",
                            "bmp_led_iterable", "one_shot_iterable",
                            "missing_chips", "ethernet_up_but_unreachable"],
        "knob_ranges": {"boards": [1, 3, 6, 12], "root_offset": "0-11 each",
                        "eth_down": "0-30 % of boards",
                        "depth": "0-4", "items": "1-12"},
        "assumptions": [
            "(255, 255) may travel over any connection",
            "the set of known connections is MachineController.connections "
            "after discover_connections (the statement says 'when one is "
            "known')", "BMP calls are only generated for (cabinet, frame) "
            "pairs that have a connection"],
    }


class EnterFailed(Exception):
    pass


class Entering(object):
    """``with Entering(cm):`` is ``with cm:`` except that an exception raised
    by entering is told apart from one raised by the body or the exit."""

    def __init__(self, cm):
        self.cm = cm

    def __enter__(self):
        try:
            return self.cm.__enter__()
        except Exception as e:
            raise EnterFailed(e)

    def __exit__(self, *exc):
        return self.cm.__exit__(*exc)


_SCP_BOOMS = {}


def _app_id(t):
    """An application id: the whole byte is legal, its ends drawn often."""
    return 1 + t.draw(250) if t.draw(4) else \
        [255, 254, 253, 128, 127, 1, 16][t.draw(7)]


class Boom(Exception):
    def __init__(self, catch_depth):
        Exception.__init__(self, "injected body failure")
        self.catch_depth = catch_depth


class BMP(object):
    """A board management processor endpoint."""

    def __init__(self, engine, ip, coord):
        self.e = engine
        self.ip = ip
        self.coord = coord
        self.log = []
        self.regs = {}

    def handle(self, payload, reply, sock):
        r = wire.parse_scp(payload)
        self.e.bmp_arrivals.append((self.ip, r))
        self.e.w.trace.ev("bmp-cmd", r.cmd, r.dest_cpu)
        if r.cmd == 0:
            arg1 = (1 << 24) | (self.coord[1] << 16) | (r.dest_cpu << 8) | \
                r.dest_cpu
            reply(wire.build_reply(r, RC_OK, [arg1, (200 << 16) | 256, 77],
                                   b"BC&MP/Spin5-BMP\0"))
        elif r.cmd in (57, 25):
            reply(wire.build_reply(r, RC_OK))
        elif r.cmd == 17:
            v = self.regs.get((r.dest_cpu, r.arg(2), r.arg(0)), 0x12345678)
            reply(wire.build_reply(r, RC_OK, [], wire.p32(v)))
        elif r.cmd == 18:
            self.regs[(r.dest_cpu, r.arg(2), r.arg(0))] = wire.u32(
                r.data(3) + b"\0\0\0\0", 0)
            reply(wire.build_reply(r, RC_OK))
        elif r.cmd == 48:
            reply(wire.build_reply(r, RC_OK, [], bytes(48)))
        else:
            reply(wire.build_reply(r, 0x83))


class CtxEngine(object):
    def __init__(self, world, tier):
        self.w = world
        self.t = world.tape
        self.sent = []            # datagrams sent during the current call
        self.arrivals = []        # (endpoint ip, parsed request)
        self.bmp_arrivals = []
        self.judged = 0
        self.ctx_pool = {"mc": [], "bmp": []}
        self.hiccup_armed = False

    # -- board model ---------------------------------------------------------
    def board_eth_of(self, x, y):
        """Ethernet chip of the board holding (x, y) - from the tile."""
        m = self.m
        W, H = self.tw, self.th
        rx, ry = m.root
        for ex, ey in self.eth_positions:
            dx, dy = (x - ex) % W, (y - ey) % H
            if dy in BOARD_ROWS and BOARD_ROWS[dy][0] <= dx <= \
                    BOARD_ROWS[dy][1]:
                return (ex, ey)
        return None

    def build(self):
        t, w, c = self.t, self.w, self.c
        nb = [1, 3, 3, 6, 12][t.draw(5)]
        if nb == 1:
            tw, th = 12, 12
            width, height = 8, 8
        else:
            tw, th = {3: (12, 12), 6: [(24, 12), (12, 24)][t.draw(2)],
                      12: (24, 24)}[nb]
            width, height = tw, th
        self.tw, self.th = tw, th
        root = (t.draw(12), t.draw(12)) if (nb > 1 and t.draw(2)) else (0, 0)
        if nb == 1:
            root = (0, 0)
        # Ethernet chips of all boards (root's board first)
        eths = []
        for bx in range(0, tw, 12):
            for by in range(0, th, 12):
                for dx, dy in TRIAD_ETH:
                    eths.append(((bx + dx + root[0]) % tw,
                                 (by + dy + root[1]) % th))
        if nb == 1:
            eths = [(0, 0)]
        self.eth_positions = eths
        m = SimMachine.__new__(SimMachine)
        SimMachine.__init__(m, w, c.net, width=1, height=1,
                            buffer_size=c.buffer_size, root=(0, 0),
                            torus=nb > 1)
        m.chips = {}
        m.width, m.height = width, height
        m.root = root
        self.m = c.machine = m
        for x in range(width):
            for y in range(height):
                if nb == 1:
                    if not (BOARD_ROWS[y][0] <= x <= BOARD_ROWS[y][1]):
                        continue
                m.chips[(x, y)] = Chip(m, x, y, 18)
        if nb > 1 and t.draw(3) == 0:
            # a few chips are missing (never a board's Ethernet chip): the
            # far corner first - the machine still spans the same dimensions
            w.probe("missing_chips")
            gone = []
            if t.draw(2):
                gone.append((width - 1, height - 1))
            for _ in range(t.draw(3)):
                gone.append((t.draw(width), t.draw(height)))
            for xy in gone:
                if xy not in eths and xy != root and xy in m.chips:
                    del m.chips[xy]
        self.eth_ip = {}
        for i, e in enumerate(eths):
            ch = m.chips[e]
            ch.ip = "10.0.%d.%d" % (i // 200, i % 200 + 1)
            # some Ethernet links are down (never the root's)
            ch.eth_up = (e == root) or not t.chance(0.2)
            self.eth_ip[e] = ch.ip
        for ch in m.chips.values():
            ch.local_eth = self.board_eth_of(ch.x, ch.y) or root
        m.on_command = self.on_command
        c.net.on_tx = self.on_tx
        # BMPs
        self.bmps = {}
        hosts = {}
        n_frames = 1 + t.draw(2)
        k = 0
        for cab in range(1 + t.draw(2)):
            for fr in range(n_frames):
                ip = "10.9.%d.%d" % (cab, fr + 1)
                self.bmps[ip] = BMP(self, ip, (cab, fr))
                hosts[(cab, fr)] = ip
                if t.draw(3) == 0:
                    b = t.draw(24)
                    ip2 = "10.9.%d.%d" % (cab, 100 + fr * 24 + b)
                    self.bmps[ip2] = BMP(self, ip2, (cab, fr, b))
                    hosts[(cab, fr, b)] = ip2
                k += 1
        self.bmp_hosts = hosts
        for ip, b in self.bmps.items():
            c.net.register(ip, 17893, b.handle)

    # -- capture -------------------------------------------------------------
    def on_tx(self, sock, payload):
        if sock.peer[1] != 17893:
            return                  # boot datagrams
        self.sent.append((sock.peer[0], wire.parse_scp(payload)))

    def on_command(self, chip, r, ip):
        self.arrivals.append((ip, r))
        if self.hiccup_armed and r.cmd == 0 and \
                self.w.sim.now < self.m.p2p_unknown_until:
            self.hiccup_armed = False
            self.w.sim.after(0.01, self.hiccup_down)

    # -- a machine that this controller boots itself ---------------------------
    def boot_first(self):
        """The machine starts unbooted and the controller under test boots it
        before anything else (real ``MachineController.boot`` and
        ``boot.boot`` against a boot-ROM endpoint on the root board).  In one
        run in three the machine has a *hiccup*: having answered a first
        post-boot poll while it does not know its position yet (it reports
        (255, 255)), it is silent for longer than rig waits and then comes up
        for good.  ``boot`` then fails with the boot error; the caller carries
        on with the machine once it is up.  Whatever happened during the boot,
        every later command must go where the caller says."""
        t, w, c, m = self.t, self.w, self.c, self.m
        w.probe("boot_before_use")
        m.booted = False
        hiccup = t.draw(3) == 0
        boot_time = 1.9 if hiccup else [0.5, 1.5, 1.9][t.draw(3)]
        unknown_for = 1.0 if hiccup else [0.0, 0.25, 1.0][t.draw(3)]
        quiet_for = 2 * c.n_tries * (c.timeout + 0.1) + 1.0
        st = {"blocks": {}, "n": None}

        def up():
            m.booted = True
            m.p2p_unknown_until = w.sim.now + unknown_for
            self.hiccup_armed = hiccup
            w.trace.ev("machine-booted")

        def up_again():
            m.booted = True
            w.trace.ev("machine-up-again")

        def down():
            m.booted = False
            w.probe("boot_hiccup")
            w.trace.ev("machine-silent")
            w.sim.after(quiet_for, up_again)
        self.hiccup_down = down

        def rom(payload, reply, sock):
            if m.booted:
                return
            p = wire.parse_boot(payload)
            if p is None:
                return
            _ver, cmd, a1, _a2, a3, data, _tail = p
            if cmd == 1:
                st["blocks"], st["n"] = {}, a3 + 1
            elif cmd == 3:
                st["blocks"][a1 & 0xff] = data
            elif cmd == 5:
                if st["n"] is not None and \
                        sorted(st["blocks"]) == list(range(st["n"])):
                    w.sim.after(boot_time, up)
                st["n"] = None
        c.net.register(self.root_ip, 54321, rom)
        was = c.policy.active
        quiet = bool(t.draw(3))
        if quiet:
            c.policy.active = False
        status, val = rigcall(w, (c.mcmod.SpiNNakerBootError,
                                  c.scp.TimeoutError,
                                  c.scp.FatalReturnCodeError), c.mc.boot)
        c.policy.active = was
        self.hiccup_armed = False
        w.sim.drain(quiet_for + 4.0)
        if status == "ok" and val is not True:
            w.violate("BOOT", "boot() of an unbooted machine returned %r"
                      % (val,), kind="boot-result")
        if quiet and not hiccup and not (status == "ok" and m.booted):
            w.violate("BOOT", "boot() over a quiet network ended in %s and the "
                      "machine is %sbooted"
                      % ("%s: %s" % (type(val).__name__, val)
                         if status == "exc" else repr(val),
                         "" if m.booted else "not "), kind="boot-failed")
        # somebody else gets the machine up if this boot did not
        m.booted = True
        for s in c.net.sockets:
            s.inbox.clear()
            del s.held[:]
        return "%s%s:%s" % ("quiet" if quiet else "faulty",
                            "+hiccup" if hiccup else "",
                            val if status == "ok" else type(val).__name__)

    # -- resolver --------------------------------------------------------
    def ctx_value(self, stack, name):
        for d in reversed(stack):
            if name in d:
                return True, d[name]
        return False, None

    # -- MachineController calls -----------------------------------------
    # name -> (fixed leading args builder, [contextual names in positional
    # order], {name: default} , wire check kind)
    def mc_methods(self):
        t = self.t
        Links = self.Links
        RTE = self.rt.RoutingTableEntry
        Routes = self.rt.Routes
        REQ = None

        def a(n):
            return 0x60001000 + 4 * t.draw(64)
        return [
            ("get_software_version", lambda: (), ["x", "y"],
             {"x": 255, "y": 255}, "chip"),
            ("get_ip_address", lambda: (), ["x", "y"], {}, "chip"),
            ("write", lambda: (a(0), t.bytes(1 + t.draw(20))), ["x", "y", "p"],
             {"p": 0}, "chip+p"),
            ("read", lambda: (a(0), 1 + t.draw(20)), ["x", "y", "p"], {"p": 0},
             "chip+p"),
            ("read_struct_field", lambda: ("sv", "p2p_addr"),
             ["x", "y", "p"], {"p": 0}, "chip+p"),
            ("write_struct_field", lambda: ("sv", "led_period", 7),
             ["x", "y", "p"], {"p": 0}, "chip+p"),
            ("read_vcpu_struct_field", lambda: ("cpu_state",),
             ["x", "y", "p"], {}, "chip+vcpu"),
            ("write_vcpu_struct_field", lambda: ("user0", t.draw(1000)),
             ["x", "y", "p"], {}, "chip+vcpu"),
            ("get_processor_status", lambda: (), ["p", "x", "y"], {},
             "chip+vcpu"),
            ("get_iobuf", lambda: (), ["p", "x", "y"], {}, "chip+vcpu"),
            ("get_router_diagnostics", lambda: (), ["x", "y"], {}, "chip"),
            ("iptag_set", lambda: (1 + t.draw(5), "10.1.2.3", 5000 + t.draw(9)),
             ["x", "y"], {}, "chip"),
            ("iptag_get", lambda: (1 + t.draw(5),), ["x", "y"], {}, "chip"),
            ("iptag_clear", lambda: (1 + t.draw(5),), ["x", "y"], {}, "chip"),
            ("set_led", lambda: self.led_args(), ["x", "y"], {}, "chip"),
            ("fill", lambda: (a(0), t.draw(256), 4 * t.draw(8)),
             ["x", "y", "p"], {}, "chip+p"),
            ("sdram_alloc", lambda: (4 + 4 * t.draw(20), 0),
             ["x", "y", "app_id"], {}, "chip+app"),
            ("sdram_free", lambda: (0x60000408,), ["x", "y"], {}, "chip"),
            ("send_signal", lambda: (self.enum_form(
                "AppSignal", ["pause", "cont", "sync0", "sync1",
                              "usr0", "usr1", "usr2", "usr3", "timer",
                              "exit", "start", "stop", "init",
                              "power_down"][t.draw(14)]),),
             ["app_id"], {}, "app"),
            ("count_cores_in_state",
             lambda: (["run", ["run", "sync0"], ("wait",), "idle",
                       ["pause", "exit", "run"]][t.draw(5)],),
             ["app_id"], {}, "app"),
            ("load_routing_table_entries",
             lambda: ([RTE({Routes(t.draw(24))}, t.draw(1 << 20),
                           0xffffffff) for _ in range(1 + t.draw(3))],),
             ["x", "y", "app_id"], {}, "chip+app"),
            ("get_routing_table_entries", lambda: (), ["x", "y"], {}, "chip"),
            ("clear_routing_table_entries", lambda: (), ["x", "y", "app_id"],
             {}, "chip+app"),
            ("get_chip_info", lambda: (), ["x", "y"], {}, "chip"),
            ("get_working_links", lambda: (), ["x", "y"], {}, "chip"),
            ("get_num_working_cores", lambda: (), ["x", "y"], {}, "chip"),
            ("read_across_link", lambda: (a(0), 4 + 4 * t.draw(4)),
             ["x", "y", "link"], {}, "chip"),
            ("send_scp", lambda: (), ["x", "y", "p"], {}, "raw"),
            ("sdram_alloc_as_filelike", lambda: (4 + 4 * t.draw(20), 0),
             ["x", "y", "app_id"], {}, "chip+app"),
            ("get_p2p_routing_table", lambda: (), ["x", "y"], {}, "chip"),
            ("write_across_link", lambda: (a(0), t.bytes(4 + 4 * t.draw(3))),
             ["x", "y", "link"], {}, "chip"),
            ("get_iobuf_bytes", lambda: (), ["p", "x", "y"], {}, "chip+vcpu"),
            ("wait_for_cores_to_reach_state",
             lambda: (["run", ("run", "wait")][t.draw(2)], 0),
             ["app_id"], {}, "app"),
        ]

    def do_mc_call(self, stack):
        t, w, c, m = self.t, self.w, self.c, self.m
        methods = self.methods
        name, mkargs, ctx_names, defaults, kind = methods[t.draw(len(methods))]
        fixed = list(mkargs())
        chips = self.chip_list
        # a value for each contextual argument, and how it is passed
        explicit = {}
        resolved = {}
        missing = None
        how = {}
        # positional prefix: the first k contextual args may be positional
        positional_ok = True
        for nm in ctx_names:
            if nm in ("x", "y"):
                pass
            mode = t.weighted([3, 3, 3])     # 0 context/default, 1 kw, 2 pos
            if nm == "link":
                mode = 1
            if name == "send_scp":
                mode = min(mode, 1)
            if mode == 2 and not positional_ok:
                mode = 1
            if mode != 2:
                positional_ok = False
            how[nm] = mode
        # x and y travel together when explicit
        if "x" in how and "y" in how and (how["x"] == 0) != (how["y"] == 0) \
                and t.draw(4):
            how["y"] = how["x"] if how["x"] != 2 or True else how["y"]
            # keep positional prefix contiguous
            order = ctx_names
            seen_non_pos = False
            for nm in order:
                if how[nm] != 2:
                    seen_non_pos = True
                elif seen_non_pos:
                    how[nm] = 1
        target = chips[t.draw(len(chips))]
        vals = {"x": target[0], "y": target[1], "p": 1 + t.draw(16),
                "app_id": _app_id(t), "link": self.Links(t.draw(6))}
        pos_args = []
        kw_args = {}
        for nm in ctx_names:
            if how[nm] == 2:
                pos_args.append(vals[nm])
                resolved[nm] = vals[nm]
                w.probe("explicit_positional")
            elif how[nm] == 1:
                kw_args[nm] = vals[nm]
                resolved[nm] = vals[nm]
                w.probe("explicit_keyword")
            else:
                found, v = self.ctx_value(stack, nm)
                if found:
                    resolved[nm] = v
                    w.probe("from_context")
                elif nm in defaults:
                    resolved[nm] = defaults[nm]
                    w.probe("from_default")
                else:
                    missing = nm
        if name == "send_scp":
            fixed = [0]            # cmd = sver
        label = "%s(%s%s%s)" % (
            name, ", ".join(_short(v) for v in fixed),
            "".join(", %s" % _short(v) for v in pos_args),
            "".join(", %s=%s" % (k, _short(v)) for k, v in
                    sorted(kw_args.items())))
        w.trace.ev("op", name)
        w.ops.append(label + "  ctx=%r" % (self.flat(stack),))
        # make sure the target can serve the call
        if missing is None and "x" in resolved and \
                (resolved["x"], resolved["y"]) != (255, 255) and \
                (resolved["x"], resolved["y"]) not in m.chips:
            w.ops[-1] += " [skipped: no such chip]"
            return
        if missing is None and "link" in resolved:
            pass
        self.sent = []
        self.arrivals = []
        fn = getattr(c.mc, name)
        status, val = rigcall(
            w, (TypeError, c.scp.TimeoutError, c.scp.FatalReturnCodeError,
                c.mcmod.SpiNNakerMemoryError, c.mcmod.SpiNNakerRouterError),
            fn, *(fixed + pos_args), **kw_args)
        if missing is not None:
            w.probe("missing_required")
            if status != "exc" or not isinstance(val, TypeError):
                w.violate("REQ", "%s without %s (not in call, context or "
                          "defaults) did not raise TypeError"
                          % (name, missing), kind="missing-not-rejected",
                          method=name)
            if self.sent:
                w.violate("REQ", "%s lacking %s sent %d datagrams before "
                          "being rejected" % (name, missing, len(self.sent)),
                          kind="sent-before-reject", method=name)
            w.ops[-1] += " -> TypeError"
            return
        if status == "exc" and isinstance(val, TypeError):
            w.violate("REQ", "%s raised TypeError although every contextual "
                      "argument was available: %s" % (name, val),
                      kind="spurious-typeerror", method=name)
        if status == "exc":
            w.probe("scp_failure")
        self.judge_mc(name, kind, resolved, label)
        w.ops[-1] += " -> " + ("ok" if status == "ok" else
                               type(val).__name__)
        w.ops_completed += 1

    def flat(self, stack):
        out = {}
        for d in stack:
            out.update(d)
        return out

    def judge_mc(self, name, kind, R, label):
        w, m = self.w, self.m
        self.judged += 1
        known = set(self.c.mc.connections)
        if not self.sent:
            w.violate("WIRE", "%s sent nothing" % label, kind="nothing-sent",
                      method=name)
        for peer_ip, d in self.sent:
            dest = (d.dest_x, d.dest_y)
            if kind == "app":
                want = (255, 255)
            else:
                want = (R["x"], R["y"])
            # helper commands of a method may address (255, 255) p 0 (sver to
            # learn the buffer size)
            if d.cmd == 0 and dest == (255, 255) and name not in (
                    "get_software_version", "send_scp"):
                continue
            if dest != want:
                w.violate("WIRE", "%s: datagram (cmd %d) addressed to chip %r,"
                          " the caller named %r" % (label, d.cmd, dest, want),
                          kind="wrong-chip", method=name)
            if name == "get_software_version" and d.cmd == 0 and \
                    d.dest_cpu != 0:
                # its core argument is called `processor` and was left to its
                # default: a `p` in some context is not its business
                w.violate("WIRE", "%s: version request addressed to core %d; "
                          "no core was named and the default is 0"
                          % (label, d.dest_cpu), kind="wrong-core",
                          method=name)
            if name == "set_led" and d.cmd == 25 and \
                    d.arg(0) != self.expect_led:
                w.violate("WIRE", "%s: LED word %#x, expected %#x"
                          % (label, d.arg(0) or 0, self.expect_led),
                          kind="wrong-led", method=name)
            if kind in ("chip+p", "raw") and d.dest_cpu != R["p"] and \
                    d.cmd in (0, 2, 3, 5):
                if name == "get_software_version":
                    pass
                else:
                    w.violate("WIRE", "%s: datagram (cmd %d) addressed to "
                              "core %d, the caller named %d"
                              % (label, d.cmd, d.dest_cpu, R["p"]),
                              kind="wrong-core", method=name)
            if kind == "chip+vcpu" and d.cmd in (2, 3):
                addr = d.arg(0)
                lo = VCPU_BASE + VCPU_SIZE * R["p"]
                in_vcpu = VCPU_BASE <= addr < VCPU_BASE + 18 * VCPU_SIZE
                if in_vcpu and not lo <= addr < lo + VCPU_SIZE:
                    w.violate("WIRE", "%s: accesses the vcpu block of core "
                              "%d, the caller named core %d"
                              % (label, (addr - VCPU_BASE) // VCPU_SIZE,
                                 R["p"]), kind="wrong-core", method=name)
            if "app_id" in R:
                app = None
                if d.cmd == 28 and (d.arg(0) & 0xff) in (0, 3, 5):
                    app = (d.arg(0) >> 8) & 0xff
                elif d.cmd == 22:
                    app = d.arg(1) & 0xff
                elif d.cmd == 29 and (d.arg(0) & 0xff) == 2:
                    app = (d.arg(0) >> 8) & 0xff
                if app is not None and app != R["app_id"]:
                    w.violate("WIRE", "%s: command %d carries app id %d, the "
                              "caller named %d" % (label, d.cmd, app,
                                                   R["app_id"]),
                              kind="wrong-app", method=name)
            # which connection
            if dest == (255, 255):
                continue
            eth = self.board_eth_of(dest[0], dest[1])
            if eth is not None and eth in known:
                want_ip = self.eth_ip[eth]
                if want_ip != self.root_ip:
                    w.probe("other_board_connection")
            else:
                want_ip = self.root_ip
                if len(known) > 1:
                    w.probe("fallback_initial_host")
            if peer_ip != want_ip:
                w.violate("CONN", "%s: datagram for chip %r sent to %s; its "
                          "board's Ethernet chip is %r (%s) and connections "
                          "are known for %r" % (
                              label, dest, peer_ip, eth,
                              self.eth_ip.get(eth), sorted(
                                  k for k in known if k is not None)),
                          kind="wrong-connection", method=name)

    # -- BMP calls ---------------------------------------------------------
    def do_bmp_call(self, stack):
        t, w, c = self.t, self.w, self.c
        w.probe("bmp_call")
        bc = self.bc
        names = ["get_software_version", "set_power", "set_led",
                 "read_fpga_reg", "write_fpga_reg", "read_adc"]
        name = names[t.draw(len(names))]
        fixed = {"get_software_version": [], "set_power": [bool(t.draw(2))],
                 "set_led": [t.draw(8), [True, False, None][t.draw(3)]],
                 "read_fpga_reg": [t.draw(3), 4 * t.draw(10)],
                 "write_fpga_reg": [t.draw(3), 4 * t.draw(10), t.draw(1000)],
                 "read_adc": []}[name]
        coords = sorted(k for k in self.bmp_hosts)
        tgt = coords[t.draw(len(coords))]
        vals = {"cabinet": tgt[0], "frame": tgt[1],
                "board": tgt[2] if len(tgt) == 3 and t.draw(2) else
                t.draw(24)}
        if name in ("set_power", "set_led") and t.draw(3) == 0:
            # several boards of one frame at once
            bs = sorted({t.draw(24) for _ in range(1 + t.draw(4))})
            if t.draw(2):
                bs.reverse()
            vals["board"] = bs
            w.probe("bmp_board_iterable")
        leds = None
        if name == "set_led":
            leds = [fixed[0]]
            if t.draw(3) == 0:
                leds = sorted({t.draw(8) for _ in range(1 + t.draw(3))})
                fixed[0] = self.iterable_shape(leds)
                w.probe("bmp_led_iterable")
        resolved, kw, pos = {}, {}, []
        missing = None
        positional_ok = name != "set_led"
        for nm in ("cabinet", "frame", "board"):
            mode = t.weighted([3, 3, 2])
            if mode == 2 and not positional_ok:
                mode = 1
            if mode != 2:
                positional_ok = False
            if mode in (1, 2):
                given = vals[nm]
                if isinstance(given, list):
                    # any iterable will do when it is given in the call
                    # itself (a one-shot iterable kept in a context would be
                    # used up by the first command)
                    given = self.iterable_shape(given)
                    if isinstance(given, (set, frozenset)):
                        vals[nm] = list(given)
                resolved[nm] = vals[nm]
                if mode == 2:
                    pos.append(given)
                else:
                    kw[nm] = given
            else:
                found, v = self.ctx_value(stack, nm)
                if found:
                    resolved[nm] = v
                else:
                    missing = nm
        if name == "set_power":
            kw["post_power_on_delay"] = 0.0
        label = "bmp.%s(%s)" % (name, ", ".join(
            [_short(v) for v in fixed + pos] +
            ["%s=%s" % (k, _short(v)) for k, v in sorted(kw.items())]))
        if missing is None and (resolved["cabinet"], resolved["frame"]) not \
                in self.bmp_hosts:
            return
        w.trace.ev("op", "bmp." + name)
        w.ops.append(label + "  ctx=%r" % (self.flat(stack),))
        self.sent = []
        status, val = rigcall(w, (TypeError, c.scp.TimeoutError,
                                  c.scp.FatalReturnCodeError),
                              getattr(bc, name), *(fixed + pos), **kw)
        if missing is not None:
            w.probe("missing_required")
            if status != "exc" or not isinstance(val, TypeError) or self.sent:
                w.violate("REQ", "bmp.%s without %s was not rejected before "
                          "anything was sent" % (name, missing),
                          kind="missing-not-rejected", method="bmp." + name)
            return
        self.judged += 1
        cab, fr, bd = resolved["cabinet"], resolved["frame"], resolved["board"]
        boards = list(bd) if isinstance(bd, (list, tuple)) else [bd]
        mask = sum(1 << b for b in boards)
        bd = boards[0]          # set_led addresses the first board named
        if (cab, fr, bd) in self.bmp_hosts:
            want_ip = self.bmp_hosts[(cab, fr, bd)]
            w.probe("bmp_board_specific_connection")
        else:
            want_ip = self.bmp_hosts[(cab, fr)]
        want_cpu = 0 if name == "set_power" else bd
        if not self.sent:
            w.violate("WIRE", "%s sent nothing" % label, kind="nothing-sent",
                      method="bmp." + name)
        for peer_ip, d in self.sent:
            if name == "set_power":
                # sent to board 0 of the frame, over the frame's connection
                # (or board 0's own when there is one)
                want_ip2 = self.bmp_hosts.get((cab, fr, 0),
                                              self.bmp_hosts[(cab, fr)])
                if peer_ip != want_ip2:
                    w.violate("CONN", "%s sent to %s, expected %s"
                              % (label, peer_ip, want_ip2),
                              kind="wrong-connection", method="bmp." + name)
                if d.arg(1) != mask:
                    w.violate("WIRE", "%s: board mask %#x, the caller named "
                              "boards %r" % (label, d.arg(1) or 0, boards),
                              kind="wrong-board", method="bmp." + name)
            else:
                if peer_ip != want_ip:
                    w.violate("CONN", "%s sent to %s, expected %s"
                              % (label, peer_ip, want_ip),
                              kind="wrong-connection", method="bmp." + name)
                if name == "set_led":
                    act = {True: 3, False: 2, None: 1}[fixed[1]]
                    want1 = sum(act << (2 * l) for l in leds)
                    if d.arg(0) != want1:
                        w.violate("WIRE", "%s: LED word %#x, expected %#x "
                                  "(leds %r)" % (label, d.arg(0) or 0, want1,
                                                 leds), kind="wrong-led",
                                  method="bmp." + name)
                if name == "set_led" and d.arg(1) != mask:
                    w.violate("WIRE", "%s: board mask %#x, the caller named "
                              "boards %r" % (label, d.arg(1) or 0, boards),
                              kind="wrong-board", method="bmp." + name)
            if (d.dest_x, d.dest_y) != (0, 0) or d.dest_cpu != want_cpu:
                w.violate("WIRE", "%s: datagram addressed to (%d, %d, %d), "
                          "expected (0, 0, %d)" % (label, d.dest_x, d.dest_y,
                                                   d.dest_cpu, want_cpu),
                          kind="wrong-board", method="bmp." + name)
        w.ops[-1] += " -> " + ("ok" if status == "ok" else type(val).__name__)
        w.ops_completed += 1

    # -- program -----------------------------------------------------------
    def run_items(self, ctl, stack, depth, budget):
        """Run a drawn sequence of items inside the current block."""
        t = self.t
        # (the body of a block may be empty)
        n = 1 + t.draw(3) if depth == 0 else t.draw(4)
        for _ in range(n):
            if budget[0] <= 0:
                return
            budget[0] -= 1
            k = t.weighted([6, 2, 3, 1, 1, 1])
            if k == 5:
                self.do_bystander()
            elif k == 0:
                self.do_mc_call(stack[ctl])
            elif k == 1:
                self.do_bmp_call(stack["bmp"])
            elif k == 2 and depth < 4:
                if t.draw(6) == 0:
                    # the block is run by the caller's error handling (a
                    # retry after a failed command): an SCP error is "being
                    # handled" for as long as the block lasts
                    self.w.probe("block_inside_except_handler")
                    self.w.ops.append("%sexcept SCPError:" % ("  " * depth))
                    try:
                        raise self.c.scp.TimeoutError("earlier failure")
                    except self.c.scp.SCPError:
                        self.run_block(stack, depth + 1, budget)
                else:
                    self.run_block(stack, depth + 1, budget)
            elif k == 3:
                self.do_update(stack)
            elif k == 4 and depth > 0:
                self.w.probe("exit_by_exception")
                self.w.fault("exception_in_with_body")
                self.w.ops.append("raise (caught %d levels up)" % 0)
                raise self.make_boom(self.t.draw(depth))

    def make_boom(self, catch_depth):
        """What leaves the body: the caller's own exception, or one of the
        library's communication errors (as when a command in the body fails
        and nobody catches it)."""
        kind = self.t.weighted([3, 1, 1])
        if kind == 0:
            return Boom(catch_depth)
        base = self.c.scp.TimeoutError if kind == 1 else \
            self.c.scp.FatalReturnCodeError
        cls = _SCP_BOOMS.get(base)
        if cls is None:
            def init(self_, d):
                Exception.__init__(self_, "injected SCP failure in the body")
                self_.catch_depth = d
            cls = _SCP_BOOMS[base] = type("Boom" + base.__name__,
                                          (Boom, base), {"__init__": init})
        self.w.probe("exit_by_scp_error")
        return cls(catch_depth)

    def do_update(self, stack):
        t, w = self.t, self.w
        w.probe("update_context")
        which = "mc" if t.draw(3) else "bmp"
        obj = self.c.mc if which == "mc" else self.bc
        args = self.draw_ctx_args(which)
        if not args:
            return
        w.ops.append("%s.update_current_context(%r)" % (which, args))
        obj.update_current_context(**args)
        stack[which][-1].update(args)
        self.check_ctx(which, stack)

    def do_bystander(self):
        """Other controllers live in the same process (created with default
        arguments, as most are): what happens to their contexts must not show
        in the controller under test, nor the reverse."""
        t, w = self.t, self.w
        which = "mc" if t.draw(3) else "bmp"
        i = t.draw(len(self.by[which]))
        obj, model = self.by[which][i]
        args = self.draw_ctx_args(which)
        w.probe("bystander_controller")
        if t.draw(3) == 0:
            w.ops.append("bystander %s#%d: with block %r" % (which, i, args))
            with obj(**args):
                got = obj.get_context_arguments()
                want = dict(model, **args)
                if got != want:
                    w.violate("CTX", "bystander %s context arguments inside a "
                              "block are %r, expected %r" % (which, got, want),
                              kind="context-arguments")
        else:
            w.ops.append("bystander %s#%d.update_current_context(%r)"
                         % (which, i, args))
            obj.update_current_context(**args)
            model.update(args)

    def draw_ctx_args(self, which):
        t = self.t
        args = {}
        if which == "mc":
            if t.draw(2):
                xy = self.chip_list[t.draw(len(self.chip_list))]
                args["x"], args["y"] = xy
                if t.draw(6) == 0:
                    del args["y"]
            if t.draw(3) == 0:
                args["p"] = 1 + t.draw(16)
            if t.draw(3) == 0:
                args["app_id"] = _app_id(t)
        else:
            coords = sorted(self.bmp_hosts)
            tgt = coords[t.draw(len(coords))]
            if t.draw(2):
                args["cabinet"], args["frame"] = tgt[0], tgt[1]
            if t.draw(2):
                args["board"] = t.draw(24)
        return args

    def enum_form(self, enum_name, name):
        """A signal / state by its name or as the enumeration's member."""
        if self.t.draw(3):
            return name
        self.w.probe("enum_member_argument")
        consts = rig_module("rig.machine_control.consts")
        return getattr(getattr(consts, enum_name), name)

    def led_args(self):
        """(led or leds, action) for MachineController.set_led; remembers the
        word the command has to carry."""
        t = self.t
        action = [True, False, None][t.draw(3)]
        act = {True: 3, False: 2, None: 1}[action]
        if t.draw(3) == 0:
            leds = sorted({t.draw(4) for _ in range(1 + t.draw(3))})
            self.expect_led = sum(act << (2 * l) for l in leds)
            self.w.probe("led_iterable")
            return (self.iterable_shape(leds), action)
        led = t.draw(4)
        self.expect_led = act << (2 * led)
        return (led, action)

    def iterable_shape(self, xs):
        """The values xs as the caller might hand them over."""
        k = self.t.weighted([4, 2, 2, 2, 1, 1])
        if k == 1:
            return tuple(xs)
        if k == 2:
            self.w.probe("one_shot_iterable")
            return (x for x in list(xs))
        if k == 3:
            self.w.probe("one_shot_iterable")
            return iter(list(xs))
        if k == 4:
            return frozenset(xs)
        if k == 5:
            return range(xs[0], xs[0] + 1) if len(xs) == 1 else list(xs)
        return list(xs)

    def check_ctx(self, which, stack):
        obj = self.c.mc if which == "mc" else self.bc
        got = obj.get_context_arguments()
        want = self.flat(stack[which])
        if got != want:
            self.w.violate("CTX", "%s context arguments are %r, expected %r"
                           % (which, got, want), kind="context-arguments")
        for i, (by, model) in enumerate(self.by[which]):
            got = by.get_context_arguments()
            if got != model:
                self.w.violate("CTX", "context arguments of bystander %s "
                               "controller #%d are %r, expected %r"
                               % (which, i, got, model),
                               kind="context-arguments")

    def run_block(self, stack, depth, budget):
        t, w, c = self.t, self.w, self.c
        if depth >= 3:
            w.probe("nested_depth_3")
        which = "mc" if t.draw(4) else "bmp"
        obj = c.mc if which == "mc" else self.bc
        is_app = which == "mc" and t.draw(3) == 0
        before = obj.get_context_arguments()
        before_model = self.flat(stack[which])
        if before != before_model:
            w.violate("CTX", "context arguments before a block are %r, "
                      "expected %r" % (before, before_model),
                      kind="context-arguments")
        pool = self.ctx_pool[which]
        reuse = None
        if pool and t.draw(4) == 0:
            # the caller kept a context object and enters it again (possibly
            # while it is already active further out)
            reuse = pool[t.draw(len(pool))]
            w.probe("context_object_reused")
            if any(d is reuse[1] for d in stack[which]):
                w.probe("context_object_reentered_while_active")
        if reuse is not None:
            cm, args, is_app = reuse
            w.ops.append("%swith <kept %s context %r>:" % (
                "  " * depth, which, args))
        elif is_app:
            w.probe("application_block")
            explicit = bool(t.draw(3))
            found, ctx_app = self.ctx_value(stack["mc"], "app_id")
            app = _app_id(t) if explicit or not found else ctx_app
            args = {"app_id": app}
            w.ops.append("%swith mc.application(%s):" % (
                "  " * depth, app if explicit or not found else ""))
            cm = c.mc.application(app) if explicit or not found else \
                c.mc.application()
        else:
            args = self.draw_ctx_args(which)
            w.ops.append("%swith %s(%r):" % ("  " * depth, which, args))
            cm = obj(**args)
        if reuse is None:
            args = dict(args)
            pool.append((cm, args, is_app))
        stack[which].append(args)       # the same dict when re-used
        signals_before = len(self.m.signals_seen)
        tx_before = len(self.all_tx)
        raised = None
        exit_error = None
        try:
            with Entering(cm):
                self.check_ctx(which, stack)
                try:
                    self.run_items(which if which == "mc" else "mc", stack,
                                   depth, budget)
                finally:
                    self.sent = []
                    tx_before = len(self.all_tx)   # the exit starts here
        except EnterFailed as ef:
            e = ef.args[0]
            if reuse is not None and is_app:
                # a kept *application* block object that cannot be entered a
                # second time: nothing promises that it can (plain context
                # objects can, by their documented push/pop behaviour)
                w.probe("kept_application_block_single_use")
                w.ops[-1] += " -> cannot be entered again (%s), skipped" \
                    % type(e).__name__
                pool[:] = [q for q in pool if q[0] is not cm]
                return
            w.violate("CTX", "entering a context block raised %s: %s"
                      % (type(e).__name__, e), kind="block-raised",
                      exc=type(e).__name__)
            return
        except Boom as b:
            raised = b
        except (c.scp.TimeoutError, c.scp.FatalReturnCodeError) as e:
            # only the stop signal of an application block can fail here
            exit_error = e
            w.probe("stop_signal_failed")
        except (AssertionError, IndexError, KeyError, AttributeError,
                TypeError, ValueError) as e:
            from rigsim.runner import innermost_rig_frame
            where = innermost_rig_frame(e)
            if where is None or "/verif/" in str(e.__traceback__.tb_frame):
                raise
            w.violate("CTX", "entering/leaving a context block raised %s: %s "
                      "(in %s)" % (type(e).__name__, e, where),
                      kind="block-raised", exc=type(e).__name__)
            return
        finally:
            top = stack[which].pop()
        after = obj.get_context_arguments()
        # "the arguments in force before it": as the model has them now - the
        # same as before entry unless the block updated a context object that
        # is (also) still active further out
        before = self.flat(stack[which])
        if after != before:
            w.violate("CTX", "after leaving a block (%s) the context "
                      "arguments are %r; before entry they were %r"
                      % ("by exception" if (raised or exit_error) else
                         "normally", after, before),
                      kind="context-not-restored",
                      by_exception=bool(raised or exit_error))
        if is_app:
            # "that application": the id the block was entered with - or the
            # id an update_current_context inside the block replaced it with
            # (the statement does not say which; both are accepted)
            ok_apps = {args["app_id"], top.get("app_id", args["app_id"])}
            stops = [d.arg(1) & 0xff for _ip, d in self.all_tx[tx_before:]
                     if d.cmd == 22 and ((d.arg(1) or 0) >> 16) & 0xff == 2
                     and d.arg(0) != 1]
            if exit_error is None and not any(a in ok_apps for a in stops):
                w.violate("APP", "leaving the application block for app %d "
                          "sent no stop signal for it (stop signals sent: %r)"
                          % (args["app_id"], stops), kind="no-stop-signal")
            bad = [a for a in stops if a not in ok_apps]
            if bad:
                w.violate("APP", "leaving the application block for app %d "
                          "stopped application %d" % (args["app_id"], bad[0]),
                          kind="wrong-app-stopped")
        elif exit_error is not None:
            w.violate("E", "a plain context block raised %s on exit"
                      % type(exit_error).__name__, kind="exit-error")
        if raised is not None and raised.catch_depth < depth - 1 and \
                depth > 1:
            raise raised

    # -- run -------------------------------------------------------------
    def run(self):
        t, w = self.t, self.w
        c = self.c = Ctl(w, allowed_faults=FAULTS, buffers=[128, 256],
                         n_tries_range=(2, 4), timeouts=[0.02, 0.1])
        # faults make exits-by-SCP-failure; keep most runs light
        self.Links = rig_module("rig.links").Links
        self.rt = rig_module("rig.routing_table")
        self.build()
        m = self.m
        self.all_tx = []
        orig_on_tx = c.net.on_tx

        def on_tx(sock, payload):
            orig_on_tx(sock, payload)
            if sock.peer[1] != 17893:
                return
            self.all_tx.append((sock.peer[0], wire.parse_scp(payload)))
        c.net.on_tx = on_tx
        try:
            init_ctx = {"app_id": 66}
            if t.draw(3) == 0:
                init_ctx = {}
            elif t.draw(3) == 0:
                init_ctx = {"app_id": 30, "x": 0, "y": 0}
            m.finish()
            self.root_ip = m.chips[m.root].ip
            c.net.hosts["spinn"] = self.root_ip
            from rigsim.seams import install_net
            install_net(c.seams, c.net)
            c.mcmod = rig_module("rig.machine_control.machine_controller")
            c.scp = rig_module("rig.machine_control.scp_connection")
            bmpmod = rig_module("rig.machine_control.bmp_controller")
            # one run in four: the controller is created without an initial
            # context (the documented default then applies)
            mc_kw, bmp_kw = {}, {}
            default_init = t.draw(4) == 0
            if default_init:
                init_ctx = {"app_id": 66}
            else:
                mc_kw["initial_context"] = dict(init_ctx)
            c.mc = c.mcmod.MachineController(
                "spinn", n_tries=c.n_tries, timeout=c.timeout, **mc_kw)
            hosts = dict(self.bmp_hosts)
            if list(hosts) == [(0, 0)] and t.draw(2):
                hosts = hosts[(0, 0)]
            bctx = {"cabinet": 0, "frame": 0, "board": 0}
            if default_init:
                pass
            elif t.draw(3) == 0:
                bctx = {}
                bmp_kw["initial_context"] = {}
            else:
                bmp_kw["initial_context"] = dict(bctx)
            self.bc = bmpmod.BMPController(hosts, n_tries=c.n_tries,
                                           timeout=c.timeout, **bmp_kw)
            # bystanders: further controllers in the same process, created
            # before and after the one under test with default arguments
            self.by = {
                "mc": [(c.mcmod.MachineController("spinn"), {"app_id": 66})
                       for _ in range(1 + t.draw(2))],
                "bmp": [(bmpmod.BMPController(hosts),
                         {"cabinet": 0, "frame": 0, "board": 0})]}
            self.methods = self.mc_methods()
            self.chip_list = sorted(m.chips)
            # Ethernet links that are reported up but lead nowhere (cable to
            # another network, firewall): the chip gives its address, every
            # datagram to that address is lost; it stays reachable through
            # the root board
            self.eth_unreachable = set()
            for e in self.eth_positions:
                if e != tuple(m.root) and m.chips[e].eth_up and \
                        t.draw(6) == 0:
                    self.eth_unreachable.add(e)
                    c.net.endpoints.pop((m.chips[e].ip, 17893), None)
                    w.probe("ethernet_up_but_unreachable")
            stack = {"mc": [dict(init_ctx)], "bmp": [dict(bctx)]}
            booted = self.boot_first() if t.draw(6) == 0 else "already"
            discovered = "no"
            if t.draw(4):
                was = c.policy.active
                # mostly on a quiet network; sometimes with the run's faults
                quiet = bool(t.draw(3))
                if quiet:
                    c.policy.active = False
                else:
                    w.probe("discovery_under_faults")
                st, n = rigcall(w, (c.scp.TimeoutError,
                                    c.scp.FatalReturnCodeError),
                                c.mc.discover_connections)
                c.policy.active = was
                discovered = "%s:%r" % (st, n)
                if st == "exc":
                    c.settle()
                if st == "ok":
                    up = sum(1 for e in self.eth_positions
                             if m.chips[e].eth_up and
                             e not in self.eth_unreachable)
                    if n != len(c.mc.connections) - 1:
                        w.violate("DISC", "discover_connections reports %r "
                                  "new connections but holds %d"
                                  % (n, len(c.mc.connections) - 1),
                                  kind="discover-count")
                    for xy in c.mc.connections:
                        if xy is not None and not (
                                xy in self.eth_ip and m.chips[xy].eth_up and
                                xy not in self.eth_unreachable):
                            w.violate("DISC", "connection recorded for %r "
                                      "which is not a board's working "
                                      "Ethernet chip" % (xy,),
                                      kind="discover-bogus")
                    if (quiet or c.clean()) and n != up:
                        w.violate("DISC", "discover_connections found %r new "
                                  "connections; %d boards have a working "
                                  "Ethernet link" % (n, up),
                                  kind="discover-count")
            w.ops.append("config boards=%d root=%r dims=%dx%d eth_down=%d "
                         "booted=%s discovered=%s init_ctx=%r bmp=%r %s"
                         % (len(self.eth_positions), m.root, m.width,
                            m.height, sum(1 for e in self.eth_positions
                                          if not m.chips[e].eth_up),
                            booted, discovered, init_ctx,
                            sorted(self.bmp_hosts),
                            c.describe()))
            n_ops = t.op_count(1, 12)
            for _ in range(n_ops):
                t.next_segment()
                budget = [8]
                try:
                    self.run_items("mc", stack, 0, budget)
                except Boom:
                    pass
                self.check_ctx("mc", stack)
                self.check_ctx("bmp", stack)
            c.heal()
            t.begin_tail()
            budget = [6]
            try:
                self.run_items("mc", stack, 0, budget)
            except Boom:
                pass
            self.check_ctx("mc", stack)
        finally:
            c.close()
        return {"boards": len(self.eth_positions), "judged": self.judged}


def _short(v):
    if hasattr(v, "__next__"):
        return "<one-shot iterable>"
    s = repr(v)
    return s if len(s) < 30 else s[:27] + "..."


def run(world, tier, prop):
    return CtxEngine(world, tier).run()
