"""C13 - file-like memory views behave as bounded files and stay in their
region.

Real: sdram_alloc_as_filelike, sdram_alloc, sdram_free, MemoryIO,
SlicedMemoryIO (all methods), utils.sdram_alloc_for_vertices.
Peer: SDRAM heap + memory of the simulated machine.

Safety monitor (at the machine): while an operation on view v runs, every
read/write/fill command the machine receives lies inside [v.start, v.end) on
v's chip; operations that must not touch the machine send nothing.
Functional oracle: a fixed-length file model per view over a shadow memory.
"""
import warnings

from rigsim.machine import Memory, ALLOC_TAG
from rigsim.seams import rig_module
from .common import Ctl, rigcall, MC_MODULES, BUFFERS, TIMEOUTS

RIG_MODULES = MC_MODULES + ["rig.machine_control.utils"]
COMPONENTS_REAL = [
    "MachineController.sdram_alloc_as_filelike/sdram_alloc/sdram_free/read/"
    "write/fill", "MemoryIO, SlicedMemoryIO (read, write, seek, tell, "
    "address, flush, close, free, __getitem__, __len__, with)",
    "rig.machine_control.utils.sdram_alloc_for_vertices", "SCPConnection"]
COMPONENTS_STUB = ["UDP network/select/clock (simulated)",
                   "SpiNNaker machine: SDRAM heap (first fit, tags, app "
                   "ownership), byte memory, SC&MP read/write/fill/alloc_free/"
                   "sver (reference model)"]


def plan(tier, prop):
    quick = tier == "quick"
    return {
        "runs": 12000 if quick else 500000,
        "budget_s": 50 if quick else 800,
        "chunk": 40 if quick else 200,
        "rule": "each run = one seeded machine and a history of 1-40 "
                "operations over a pool of views (roots, slices, slices of "
                "slices), then a healed alloc+write+read-back; non-trivial = "
                "at least one view operation completed; distinct = distinct "
                "abstract event traces",
        "expected_probes": ["view_object_dropped", "truncation_warning_as_error", "numpy_slice_bounds", "seek_rejected",
                            "slice_of_slice", "truncated_write",
                            "truncated_read", "seek_negative", "seek_beyond",
                            "seek_end", "op_after_close", "op_after_free",
                            "alloc_failed", "zero_length_view", "with_block",
                            "alloc_for_vertices", "default_read",
                            "direct_construct", "op_timeout"],
        "knob_ranges": {"buffer_size": BUFFERS, "timeout": TIMEOUTS,
                        "view_length": "0 .. 3 buffers", "ops": "1-40",
                        "heap": "1 KiB .. 64 KiB (allocation failure "
                                "natural) + injected failures"},
        "assumptions": [
            "slicing a closed (not freed) view is not judged (statement "
            "silent)", "operations at a negative position are judged for "
            "confinement only (a fixed-length file cannot be at a negative "
            "position); the position is then re-read with tell()",
            "tagged allocations only in configurations without reply loss/"
            "delay on the allocation (a retransmitted tagged allocation "
            "fails with tag-in-use: protocol effect, DESIGN.md 7.12)",
            "requests reach the machine in order; no request delay/dup"],
    }


class View(object):
    __slots__ = ("obj", "xy", "start", "end", "pos", "closed", "root",
                 "depth", "name", "freed_root")


class Root(object):
    __slots__ = ("freed", "ptr")


class _CallerError(Exception):
    """Raised by the workload inside a with-block."""


class MemioEngine(object):
    def __init__(self, world, tier):
        self.w = world
        self.t = world.tape
        self.views = []
        self.allowed = "any"      # "any" | None | (xy, lo, hi)
        self.judged = set()
        self.n_views = 0

    # -- machine-side confinement monitor --------------------------------
    def on_command(self, chip, r, ip):
        if r.cmd not in (2, 3, 5):
            return
        # a retransmitted copy of a command that was already judged (it can
        # arrive just after the operation that sent it returned) is not a new
        # command
        if r.raw in self.judged:
            return
        self.judged.add(r.raw)
        if self.allowed == "any":
            return
        addr = r.arg(0) or 0
        n = (r.arg(2) if r.cmd == 5 else r.arg(1)) or 0
        if self.allowed is None:
            self.w.note_violation(
                "CONF", "%s: command %d (addr %#x, %d bytes) reached the "
                "machine although this operation must not touch it"
                % (self.cur_op, r.cmd, addr, n), kind="unexpected-command",
                op=self.cur_kind)
            return
        xy, lo, hi = self.allowed
        if (chip.x, chip.y) != xy or addr < lo or addr + n > hi:
            self.w.note_violation(
                "CONF", "%s: command %d touches [%#x, %#x) on chip %r; the "
                "view covers [%#x, %#x) on chip %r"
                % (self.cur_op, r.cmd, addr, addr + n, (chip.x, chip.y), lo,
                   hi, xy), kind="outside-view", op=self.cur_kind,
                side="below" if addr < lo else "above")

    # -- helpers -----------------------------------------------------------
    def compare(self, what, relaxed=None):
        w = self.w
        for xy, ch in self.m.chips.items():
            for space, addr, got, exp in ch.mem.diff(self.shadow[xy], 40):
                if relaxed is not None:
                    rxy, ra, old, new = relaxed
                    if rxy == xy and ra <= addr < ra + len(new) and \
                            got in (old[addr - ra], new[addr - ra]):
                        continue
                w.violate("M", "after %s: chip %r byte at %#x is %#04x, "
                          "expected %#04x" % (what, xy, addr, got, exp),
                          kind="memory-differs", op=self.cur_kind)
        if relaxed is not None:
            rxy, ra, old, new = relaxed
            self.shadow[rxy].write(ra, self.m.chips[rxy].mem.read(
                ra, len(new)))

    def begin(self, kind, text, allowed):
        self.cur_kind = kind
        self.cur_op = text
        self.allowed = allowed
        self.w.trace.ev("op", kind)
        self.w.ops.append(text)

    def end(self, suffix=""):
        self.allowed = "any"
        self.w.ops[-1] += " -> " + suffix
        self.w.ops_completed += 1

    def dead(self, v):
        return v.closed or v.root.freed

    def pick_view(self):
        return self.views[self.t.draw(len(self.views))]

    def add_view(self, obj, xy, start, end, root, depth):
        v = View()
        v.obj, v.xy, v.start, v.end = obj, xy, start, end
        v.pos = 0
        v.closed = False
        v.root = root
        v.depth = depth
        self.n_views += 1
        v.name = "v%d" % self.n_views
        self.views.append(v)
        if end == start:
            self.w.probe("zero_length_view")
        if depth >= 2:
            self.w.probe("slice_of_slice")
        return v

    def sync_pos(self, v):
        try:
            v.pos = v.obj.tell()
        except Exception:
            pass

    @staticmethod
    def view_range(obj, fallback=None):
        """(start, end) addresses of a view through its public interface
        (address, tell, len); private attributes only as a fall-back for views
        whose public interface already refuses to answer (closed / freed)."""
        try:
            start = int(obj.address) - int(obj.tell())
            try:
                n = len(obj)
            except ValueError:
                n = int(obj._end_address) - int(obj._start_address)
            return start, start + n
        except Exception:
            try:
                return int(obj._start_address), int(obj._end_address)
            except AttributeError:
                return fallback

    # -- operations --------------------------------------------------------
    def op_alloc(self, heal=False):
        t, w, c = self.t, self.w, self.c
        xy = self.chip_list[t.draw(len(self.chip_list))]
        B = c.buffer_size
        size = [0, 1, 3, 4, B - 1, B, B + 1, 2 * B, 2 * B + 3, 3 * B][
            t.draw(10)] if t.draw(2) else t.draw(3 * B + 1)
        if heal:
            size = 1 + t.draw(2 * B)
        clear = bool(t.draw(3) == 0)
        tag = 0
        if c.clean() and t.draw(3) == 0 and not heal:
            tag = 1 + t.draw(255)
        app = [66, 66, 30, 255][t.draw(4)]
        ch = self.m.chips[xy]
        self.begin("alloc", "sdram_alloc_as_filelike(%d,tag=%d,%r,app=%d,"
                   "clear=%r)" % (size, tag, xy, app, clear), "any")
        fail = self.inject_alloc_fail = (not heal and t.chance(0.08))
        if fail:
            w.fault("alloc_failure_injected")
        # tag and clear left to their documented defaults (0, False) when
        # that is what the caller wants
        if not tag and not clear and t.draw(2):
            pos_args, kw_args = [], {"x": xy[0], "y": xy[1], "app_id": app}
            w.probe("alloc_default_tag_clear")
        else:
            pos_args, kw_args = [tag, xy[0], xy[1], app, clear], {}
        status, val = rigcall(
            w, (c.scp.TimeoutError, c.mcmod.SpiNNakerMemoryError),
            c.mc.sdram_alloc_as_filelike, size, *pos_args, **kw_args)
        self.inject_alloc_fail = False
        if status == "exc":
            c.settle()
            if isinstance(val, c.mcmod.SpiNNakerMemoryError):
                w.probe("alloc_failed")
                if heal or (not fail and ch.sdram.largest_free() >= size + 16
                            and not tag):
                    w.violate("A", "allocation of %d bytes failed although "
                              "%d are free" % (size, ch.sdram.largest_free()),
                              kind="alloc-failed")
            else:
                w.probe("op_timeout")
                if c.clean():
                    w.violate("L", "alloc timed out with no fault active",
                              kind="clean-timeout")
            # a clear may have been cut short: resync whole heap area
            self.resync_heap(xy)
            self.end(type(val).__name__)
            return None
        obj = val
        start = self.view_range(obj)[0]
        blk = ch.sdram.find(start)
        if blk is None or blk[1] - 8 < size:
            w.violate("A", "returned view starts at %#x which is not a block "
                      "of >= %d bytes the machine allocated" % (start, size),
                      kind="alloc-address")
        if clear:
            self.shadow[xy].write(start, b"\0" * size)
        self.resync_tags(xy)
        root = Root()
        root.freed = False
        root.ptr = start
        v = self.add_view(obj, xy, start, start + size, root, 0)
        self.check_static(v)
        self.compare("alloc")
        self.end("%s@%#x" % (v.name, start))
        return v

    def resync_heap(self, xy):
        ch = self.m.chips[xy]
        sh = self.shadow[xy]
        for key, pg in ch.mem.pages.items():
            if key[0] is None and ch.sdram.base <= key[1] < \
                    ch.sdram.base + ch.sdram.size + 256:
                sh.pages[key] = bytearray(pg)
        self.resync_tags(xy)

    def resync_tags(self, xy):
        """The alloc-tag table is the machine's own book-keeping."""
        ch = self.m.chips[xy]
        sh = self.shadow[xy]
        for key, pg in ch.mem.pages.items():
            if key[0] is None and ALLOC_TAG <= key[1] < ALLOC_TAG + (1 << 18):
                sh.pages[key] = bytearray(pg)

    def op_direct(self):
        t = self.t
        self.w.probe("direct_construct")
        xy = self.chip_list[t.draw(len(self.chip_list))]
        B = self.c.buffer_size
        start = 0x61000000 + t.draw(64) * 1024 + t.draw(8)
        size = t.draw(3 * B + 1)
        end = start + size if t.draw(8) else start - t.draw(5)
        self.begin("direct", "MemoryIO(%r,%#x,%#x)" % (xy, start, end), None)
        obj = self.c.mcmod.MemoryIO(self.c.mc, xy[0], xy[1], start, end)
        root = Root()
        root.freed = False
        root.ptr = start
        v = self.add_view(obj, xy, start, max(start, end), root, 0)
        self.check_static(v)
        self.end(v.name)

    def op_vertices(self):
        t, w, c = self.t, self.w, self.c
        w.probe("alloc_for_vertices")
        par = rig_module("rig.place_and_route")
        utils = rig_module("rig.machine_control.utils")
        n = 1 + t.draw(3)
        placements, allocations = {}, {}
        for i in range(n):
            vx = "vtx%d" % i
            xy = self.chip_list[t.draw(len(self.chip_list))]
            placements[vx] = xy
            size = t.draw(2 * c.buffer_size)
            base = t.draw(1000)
            allocations[vx] = {par.Cores: slice(1 + i, 2 + i)}
            if t.draw(4):
                allocations[vx][par.SDRAM] = slice(base, base + size)
        clean = c.clean()
        self.begin("vertices", "sdram_alloc_for_vertices(%d)" % n, "any")
        with c.mc(app_id=77):
            status, val = rigcall(
                w, (c.scp.TimeoutError, c.mcmod.SpiNNakerMemoryError),
                utils.sdram_alloc_for_vertices, c.mc, placements, allocations,
                core_as_tag=clean and bool(t.draw(2)))
        if status == "exc":
            c.settle()
            for xy in self.chip_list:
                self.resync_heap(xy)
            self.end(type(val).__name__)
            return
        for xy in self.chip_list:
            self.resync_tags(xy)
        want = {vx for vx in allocations if par.SDRAM in allocations[vx]}
        if set(val) != want:
            w.violate("A", "sdram_alloc_for_vertices returned views for %r, "
                      "expected %r" % (sorted(val), sorted(want)),
                      kind="vertices-keys")
        for vx in sorted(val):
            obj = val[vx]
            sl = allocations[vx][par.SDRAM]
            size = sl.stop - sl.start
            xy = placements[vx]
            o_start = self.view_range(obj)[0]
            blk = self.m.chips[xy].sdram.find(o_start)
            if blk is None or blk[1] - 8 < size or len(obj) != size:
                w.violate("A", "view for %s is not a %d byte allocation on "
                          "chip %r" % (vx, size, xy), kind="vertices-alloc")
            root = Root()
            root.freed = False
            root.ptr = o_start
            v = self.add_view(obj, xy, o_start, o_start + size, root, 0)
            self.check_static(v)
        self.end("ok")

    def check_static(self, v):
        """len / tell / address agree with the model (no machine traffic)."""
        w = self.w
        o = v.obj
        try:
            n = len(o)
        except ValueError as e:
            n = "invalid (%s)" % e
        if n != v.end - v.start:
            w.violate("F", "len(%s) is %s, the view covers %d bytes"
                      % (v.name, n, v.end - v.start), kind="len")
        if self.dead(v):
            return
        if o.tell() != v.pos:
            w.violate("F", "%s.tell() is %d, expected %d"
                      % (v.name, o.tell(), v.pos), kind="tell")
        if o.address != v.start + v.pos:
            w.violate("F", "%s.address is %#x, expected %#x"
                      % (v.name, o.address, v.start + v.pos), kind="address")

    def expect_dead(self, v, kind, fn, *args):
        """Operation on a closed/freed view: must raise, nothing sent."""
        w = self.w
        w.probe("op_after_free" if v.root.freed else "op_after_close")
        self.begin(kind, "%s.%s%r [closed=%r freed=%r]" % (
            v.name, kind, args, v.closed, v.root.freed), None)
        try:
            fn(*args)
        except (OSError, IOError, ValueError):
            self.end("raised")
            return
        w.violate("D", "%s.%s succeeded on a view that was %s"
                  % (v.name, kind, "freed" if v.root.freed else "closed"),
                  kind="op-after-close", op=kind)
        self.end("NO ERROR")

    def op_seek(self, v):
        t, w = self.t, self.w
        L = v.end - v.start
        whence = t.weighted([3, 2, 2])
        n = [0, 1, -1, L, L + 1, L - 1, -L, 2, -3, L + 7, -(L + 2),
             L // 2][t.draw(12)] if t.draw(3) else t.draw(L + 1)
        if self.dead(v):
            return self.expect_dead(v, "seek", v.obj.seek, n, whence)
        if t.draw(20) == 0:
            # a seek the view rejects (no such origin): nothing moves
            bad = [3, -1, 7][t.draw(3)]
            self.begin("seek", "%s.seek(%d,%d)" % (v.name, n, bad), None)
            w.probe("seek_rejected")
            try:
                v.obj.seek(n, bad)
            except ValueError:
                pass
            else:
                w.violate("SK", "%s.seek(%d, %d) was accepted" % (v.name, n,
                                                                  bad),
                          kind="seek-whence")
            if v.obj.tell() != v.pos:
                w.violate("SK", "a rejected seek moved the position of %s "
                          "from %d to %d" % (v.name, v.pos, v.obj.tell()),
                          kind="seek-rejected-moved")
                v.pos = v.obj.tell()
            self.end("rejected")
            return
        self.begin("seek", "%s.seek(%d,%d)" % (v.name, n, whence), None)
        v.obj.seek(n, whence)
        if whence == 0:
            exp = n
        elif whence == 1:
            exp = v.pos + n
        else:
            exp = L + n
            w.probe("seek_end")
        got = v.obj.tell()
        if got != exp:
            w.violate("SK", "%s.seek(%d, %d) on a %d byte view at position "
                      "%d moved to %d; a file moves to %d"
                      % (v.name, n, whence, L, v.pos, got, exp),
                      kind="seek-position", whence=whence)
        v.pos = got
        if got < 0:
            w.probe("seek_negative")
        if got > L:
            w.probe("seek_beyond")
        self.end("pos=%d" % got)

    def op_read(self, v):
        t, w, c = self.t, self.w, self.c
        L = v.end - v.start
        B = c.buffer_size
        mode = t.draw(4)
        if mode == 0:
            n = None
            w.probe("default_read")
        elif mode == 1:
            n = [0, 1, L, L + 1, B, 2 * B + 1, -1, -7][t.draw(8)]
        else:
            n = t.draw(L + 4)
        args = () if n is None else (n,)
        if self.dead(v):
            return self.expect_dead(v, "read", v.obj.read, *args)
        self.begin("read", "%s.read(%s) @%d/%d" % (v.name, n, v.pos, L),
                   (v.xy, v.start, v.end))
        TW = c.mcmod.TruncationWarning
        strict = v.pos >= 0 and t.draw(5) == 0
        with warnings.catch_warnings(record=True) as rec:
            warnings.simplefilter("always")
            if strict:
                warnings.simplefilter("error", TW)
                self.w.ops[-1] += " [TruncationWarning -> error]"
            status, val = rigcall(w, (c.scp.TimeoutError, TW), v.obj.read,
                                  *args)
        warned = any(issubclass(r.category, TW) for r in rec)
        if status == "exc" and isinstance(val, TW):
            avail_ = max(0, L - v.pos)
            want_ = avail_ if (n is None or n < 0) else n
            if self.refused(v, "read", want_, avail_,
                            max(0, min(want_, avail_)), None):
                return
        if status == "exc":
            c.settle()
            w.probe("op_timeout")
            if c.clean():
                w.violate("L", "read timed out with no fault active",
                          kind="clean-timeout")
            if v.obj.tell() != v.pos:
                w.violate("F", "%s.read failed but the position moved from "
                          "%d to %d" % (v.name, v.pos, v.obj.tell()),
                          kind="pos-after-failure")
            self.compare("read")
            self.end("TimeoutError")
            return
        data = bytes(val)
        if v.pos < 0:
            # not a state a file can be in: confinement only
            self.sync_pos(v)
            self.compare("read")
            self.end("%d bytes (negative position: not judged)" % len(data))
            return
        want_n = (L - v.pos) if (n is None or n < 0) else n
        avail = max(0, L - v.pos)
        take = max(0, min(want_n, avail))
        exp = self.shadow[v.xy].read(v.start + v.pos, take)
        cut = (n is not None and n >= 0 and n > avail)
        if data != exp:
            w.violate("F", "%s.read(%s) at position %d of %d returned %d "
                      "bytes %s..., the file holds %d bytes %s..."
                      % (v.name, n, v.pos, L, len(data), data[:6].hex(),
                         len(exp), exp[:6].hex()), kind="read-data")
        if cut:
            w.probe("truncated_read")
        if cut != warned and v.pos <= L:
            w.violate("F", "%s.read(%s) at position %d of %d: transfer %s cut "
                      "but TruncationWarning was %s"
                      % (v.name, n, v.pos, L, "was" if cut else "was not",
                         "issued" if warned else "not issued"),
                      kind="truncation-warning", op="read")
        newpos = v.pos + len(exp)
        if v.obj.tell() != newpos:
            w.violate("F", "%s.read moved the position from %d to %d; %d "
                      "bytes were transferred" % (v.name, v.pos, v.obj.tell(),
                                                  len(exp)),
                      kind="position-advance", op="read")
        v.pos = v.obj.tell()
        self.compare("read")
        self.end("%d bytes" % len(data))

    def op_write(self, v, heal=False):
        t, w, c = self.t, self.w, self.c
        L = v.end - v.start
        B = c.buffer_size
        n = [0, 1, L, L + 1, B, 2 * B + 3, 3][t.draw(7)] if t.draw(2) else \
            t.draw(L + 4)
        data = t.bytes(n)
        if self.dead(v):
            return self.expect_dead(v, "write", v.obj.write, data)
        self.begin("write", "%s.write(%d bytes) @%d/%d" % (v.name, n, v.pos,
                                                           L),
                   (v.xy, v.start, v.end))
        TW = c.mcmod.TruncationWarning
        # the caller may have turned the warning into an exception, as the
        # methods' documentation suggests
        strict = v.pos >= 0 and t.draw(5) == 0
        with warnings.catch_warnings(record=True) as rec:
            warnings.simplefilter("always")
            if strict:
                warnings.simplefilter("error", TW)
                self.w.ops[-1] += " [TruncationWarning -> error]"
            status, val = rigcall(w, (c.scp.TimeoutError, TW), v.obj.write,
                                  data)
        warned = any(issubclass(r.category, TW) for r in rec)
        avail = max(0, L - v.pos)
        take = max(0, min(n, avail)) if v.pos >= 0 else 0
        new = data[:take]
        if status == "exc" and isinstance(val, TW):
            if self.refused(v, "write", n, avail, take, new):
                return
        if status == "exc":
            c.settle()
            w.probe("op_timeout")
            if c.clean():
                w.violate("L", "write timed out with no fault active",
                          kind="clean-timeout")
            if v.obj.tell() != v.pos:
                w.violate("F", "%s.write failed but the position moved"
                          % v.name, kind="pos-after-failure")
            if v.pos >= 0 and take:
                old = self.shadow[v.xy].read(v.start + v.pos, take)
                self.compare("write", (v.xy, v.start + v.pos, old, new))
            else:
                self.compare("write")
            self.end("TimeoutError")
            return
        if v.pos < 0:
            # confinement only; whatever was written inside the view is
            # adopted by the model
            self.shadow[v.xy].write(v.start, self.m.chips[v.xy].mem.read(
                v.start, L))
            self.sync_pos(v)
            self.compare("write")
            self.end("%r (negative position: not judged)" % (val,))
            return
        self.shadow[v.xy].write(v.start + v.pos, new)
        cut = n > avail
        if cut:
            w.probe("truncated_write")
        if val != take:
            w.violate("F", "%s.write(%d bytes) at position %d of %d returned "
                      "%r; %d bytes fit" % (v.name, n, v.pos, L, val, take),
                      kind="write-count")
        if cut != warned and v.pos <= L:
            w.violate("F", "%s.write(%d bytes) at position %d of %d: transfer "
                      "%s cut but TruncationWarning was %s"
                      % (v.name, n, v.pos, L, "was" if cut else "was not",
                         "issued" if warned else "not issued"),
                      kind="truncation-warning", op="write")
        if v.obj.tell() != v.pos + take:
            w.violate("F", "%s.write moved the position from %d to %d; %d "
                      "bytes were transferred" % (v.name, v.pos, v.obj.tell(),
                                                  take),
                      kind="position-advance", op="write")
        v.pos = v.obj.tell()
        self.compare("write")
        self.end("%r" % (val,))

    def refused(self, v, kind, n, avail, take, new):
        """A transfer refused with the truncation warning raised as an
        exception: it was cut, and either nothing happened or the clipped
        transfer happened in full - bytes moved and position agree."""
        w = self.w
        w.probe("truncation_warning_as_error")
        if n <= avail and v.pos <= v.end - v.start:
            w.violate("F", "%s.%s of %d bytes with %d available raised "
                      "TruncationWarning although nothing had to be cut"
                      % (v.name, kind, n, avail), kind="truncation-warning",
                      op=kind)
        now = v.obj.tell()
        moved = now - v.pos
        if moved == take and new is not None:
            self.shadow[v.xy].write(v.start + v.pos, new)
        elif moved not in (0, take):
            w.violate("F", "%s.%s refused with TruncationWarning moved the "
                      "position from %d to %d; %d bytes fit"
                      % (v.name, kind, v.pos, now, take),
                      kind="position-advance", op=kind)
        v.pos = now
        # (bytes written without the position following, or the reverse,
        # show as a memory difference here)
        self.compare(kind)
        self.end("TruncationWarning raised, position %d" % now)
        return True

    def op_slice(self, v):
        t, w = self.t, self.w
        L = v.end - v.start

        def bound():
            k = t.draw(4)
            if k == 0:
                return None
            if k == 1:
                return t.draw(L + 3)
            if k == 2:
                return -t.draw(L + 3)
            return [0, L, L + 5, -L, -(L + 5), 1, -1][t.draw(7)]
        a, b = bound(), bound()
        if t.draw(6) == 0:
            # offsets computed with numpy (any integer type will do)
            import numpy
            ty = [numpy.int64, numpy.intp][t.draw(2)]
            a = a if a is None else ty(a)
            b = b if b is None else ty(b)
            w.probe("numpy_slice_bounds")
        self.begin("slice", "%s[%r:%r]" % (v.name, a, b), None)
        if v.root.freed or v.closed:
            # not judged: creating a view object touches nothing
            try:
                obj = v.obj[a:b]
            except Exception:
                self.end("raised (not judged)")
                return
        else:
            obj = v.obj[a:b]
        i0, i1, _ = slice(a, b).indices(L)
        ns, ne = v.start + i0, v.start + max(i0, i1)
        o_start, o_end = self.view_range(obj, (ns, ne))
        if (o_start, o_end) != (ns, ne) and \
                not (v.root.freed or v.closed):
            w.violate("S", "%s[%r:%r] of a %d byte view covers offsets "
                      "[%d, %d); slice.indices gives [%d, %d)"
                      % (v.name, a, b, L, o_start - v.start,
                         o_end - v.start, i0, max(i0, i1)),
                      kind="slice-range")
        nv = self.add_view(obj, v.xy, o_start, o_end, v.root, v.depth + 1)
        # step other than 1 / non-slice index must be rejected
        if t.draw(8) == 0:
            try:
                v.obj[::2] if t.draw(2) else v.obj[3]
            except ValueError:
                pass
            else:
                w.violate("S", "non-contiguous slice / index accepted",
                          kind="slice-step")
        self.check_static(nv)
        self.end(nv.name)

    def op_close(self, v, use_with=False):
        w = self.w
        self.begin("close", "%s.%s" % (v.name, "with" if use_with else
                                       "close()"), None)
        try:
            if use_with:
                w.probe("with_block")
                boom = self.t.draw(3) == 0
                try:
                    with v.obj as o:
                        if o is not v.obj:
                            w.violate("F", "with-block did not yield the "
                                      "view", kind="with")
                        if boom:
                            # the block is left by the caller's exception
                            w.probe("with_block_left_by_exception")
                            raise _CallerError()
                except _CallerError:
                    pass
            else:
                v.obj.close()
        except (OSError, IOError):
            if not (v.root.freed or v.closed):
                w.violate("F", "close() of an open view raised", kind="close")
        v.closed = True
        w.fault("close_at_arbitrary_point")
        if not getattr(v.obj, "closed", True) and not v.root.freed:
            w.violate("F", "view not marked closed after close()",
                      kind="close")
        self.end("closed")

    def op_free(self, v):
        w, c = self.w, self.c
        # only root views have free()
        rootv = next((x for x in self.views if x.root is v.root and
                      x.depth == 0), None)
        if rootv is None:
            return      # the caller no longer holds the root view
        if rootv.root.freed:
            return self.expect_dead(rootv, "free", rootv.obj.free)
        self.begin("free", "%s.free()" % rootv.name, None)
        status, val = rigcall(w, (c.scp.TimeoutError,), rootv.obj.free)
        if status == "exc":
            c.settle()
            w.probe("op_timeout")
            self.end("TimeoutError")
            return
        rootv.root.freed = True
        w.fault("free_at_arbitrary_point")
        self.resync_tags(rootv.xy)
        if self.m.chips[rootv.xy].sdram.find(rootv.root.ptr) is not None:
            w.violate("A", "free() returned but block %#x is still allocated"
                      % rootv.root.ptr, kind="free")
        self.end("freed")

    def op_forget(self, v):
        """The caller lets go of a view object - typically the one others
        were sliced from (a helper that returns only a sub-view,
        ``mc.sdram_alloc_as_filelike(n)[a:b]``) - and the collector runs.
        Nothing was closed or freed: the views still held work as before."""
        import gc
        if len(self.views) < 2:
            return
        self.begin("forget", "del %s" % v.name, None)
        self.views.remove(v)
        v.obj = None
        del v
        gc.collect()
        self.w.probe("view_object_dropped")
        self.end("dropped")

    def op_misc(self, v):
        if self.dead(v):
            k = self.t.draw(3)
            if k == 0:
                return self.expect_dead(v, "tell", v.obj.tell)
            if k == 1:
                return self.expect_dead(v, "flush", v.obj.flush)
            return self.expect_dead(v, "address", lambda: v.obj.address)
        self.begin("static", "%s.tell/len/address/flush" % v.name, None)
        self.check_static(v)
        v.obj.flush()
        self.end("ok")

    # -- run -------------------------------------------------------------
    def run(self):
        t, w = self.t, self.w
        c = self.c = Ctl(w)
        width = 1 + t.draw(2)
        m = self.m = c.build_machine(width=width, height=1,
                                     n_cores=[18, 4][t.draw(2)])
        heap = [1024, 4096, 65536][t.draw(3)]
        # (the chips' heaps usually start at one and the same address, so
        # blocks on different chips have equal addresses)
        same_base = t.draw(3) != 0
        base0 = 0x60000000 + 0x100 * t.draw(16)
        for ch in m.chips.values():
            ch.sdram.size = heap
            ch.sdram.base = base0 if same_base else \
                0x60000000 + 0x100 * t.draw(16)
        m.on_command = self.on_command
        self.inject_alloc_fail = False
        m.alloc_fail_hook = lambda chip, what, n: self.inject_alloc_fail
        try:
            mc = c.start(materialise=True)
            win = [None, 1, 4, 16][t.draw(4)]
            if win:
                mc._window_size = win
            self.chip_list = sorted(m.chips)
            self.shadow = {}
            for xy, ch in m.chips.items():
                sh = Memory()
                sh.pages = {k: bytearray(v) for k, v in ch.mem.pages.items()}
                self.shadow[xy] = sh
            w.ops.append("config %dx1 heap=%d window=%r %s"
                         % (width, heap, win, c.describe()))
            n_ops = t.op_count(1, 40)
            for _ in range(n_ops):
                t.next_segment()
                if not self.views:
                    k = t.weighted([6, 1, 1])
                    if k == 0:
                        self.op_alloc()
                    elif k == 1:
                        self.op_direct()
                    else:
                        self.op_vertices()
                    continue
                k = t.weighted([2, 6, 6, 6, 4, 2, 1, 1, 1, 1, 1, 1])
                if k == 11:
                    self.op_forget(self.pick_view())
                    continue
                if k == 0:
                    self.op_alloc()
                    continue
                if k == 9:
                    self.op_direct()
                    continue
                if k == 10:
                    self.op_vertices()
                    continue
                v = self.pick_view()
                if k == 1:
                    self.op_seek(v)
                elif k == 2:
                    self.op_read(v)
                elif k == 3:
                    self.op_write(v)
                elif k == 4:
                    self.op_slice(v)
                elif k == 5:
                    self.op_misc(v)
                elif k == 6:
                    self.op_close(v)
                elif k == 7:
                    self.op_close(v, use_with=True)
                else:
                    self.op_free(v)
            # heal: alloc + write + read-back
            c.heal()
            t.begin_tail()
            for ch in m.chips.values():
                ch.sdram.size = 1 << 20
            v = self.op_alloc(heal=True)
            if v is not None:
                self.op_write(v)
                self.begin("seek", "%s.seek(0)" % v.name, None)
                v.obj.seek(0)
                v.pos = 0
                self.end("pos=0")
                self.op_read(v)
        finally:
            c.close()
        return {"views": self.n_views, "buffer": c.buffer_size}


def run(world, tier, prop):
    return MemioEngine(world, tier).run()
