#!/bin/sh
# Confirm a seeded change independently and run the property's check on it:
#   tools/confirm_seeded.sh <letter> <ID> [PROP ...]
# 1. copies /tmp/seedwork/<letter>/<ID>/out to seeded/<ID>-<letter>
# 2. test-suite on a patched scratch copy must fail/pass exactly like /repo
# 3. demo passes on /repo, fails on the patched copy; quick check(s) run (try_seeded.sh)
l=$1; id=$2; shift 2
cd "$(dirname "$0")/.." || exit 2
src=/tmp/seedwork/$l/$id/out; dst=seeded/$id-$l
for f in patch.diff demo.py meta.json; do [ -f "$src/$f" ] || { echo "missing $src/$f"; exit 2; }; done
mkdir -p "$dst"; cp "$src/patch.diff" "$src/demo.py" "$src/meta.json" "$dst/"
# the patch must touch library source only
if grep '^+++ ' "$dst/patch.diff" | grep -qv '^+++ b/rig/'; then echo "PATCH touches files outside rig/:"; grep '^+++ ' "$dst/patch.diff"; fi
base=/tmp/seedwork/base_tests.txt
runtests() { (cd "$1" && PYTHONPATH="$1" timeout 900 /venv/bin/python -m pytest -q -p no:cacheprovider --timeout=900 --continue-on-collection-errors -p no:randomly 2>&1 | grep -E '^(FAILED|ERROR)|passed|failed' | sed "s/ in [0-9.]*s.*//; s/, [0-9]* warnings//" | sort); }
[ -f "$base" ] || runtests /repo > "$base"
tmp=$(mktemp -d /tmp/rigconf-XXXXXX)
rsync -a --exclude .git --exclude __pycache__ /repo/ "$tmp/"
(cd "$tmp" && patch -p1 -s < "/verif/$dst/patch.diff") || { echo PATCH-FAILED; rm -rf "$tmp"; exit 2; }
runtests "$tmp" > "$tmp.tests"
if diff -q "$base" "$tmp.tests" >/dev/null; then echo "tests: identical to baseline ($(grep -c . "$base") summary lines)"; else echo "tests: DIFFER"; diff "$base" "$tmp.tests" | head; fi
rm -rf "$tmp" "$tmp.tests"
tools/try_seeded.sh "$dst" "$@"
