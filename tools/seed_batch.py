#!/usr/bin/env python3
"""Development aid: prepare the scratch worktrees and the instruction files for
one batch of independently seeded changes (DESIGN.md section 16).

    tools/seed_batch.py <letter> <theme-file> [ID ...]

For each claimed property it creates /tmp/seedwork/<letter>/<ID>/wt (a detached
git worktree of /repo) and /tmp/seedwork/<letter>/<ID>/INSTRUCTIONS.md, which
holds nothing from /verif except the text of the property and one line per
idea already used for that property (so that the new change is a new one).
The sub-agent is then told to read that file and nothing else.

    tools/seed_batch.py --collect <letter>    copy confirmed results to seeded/
    tools/seed_batch.py --clean <letter>      remove the worktrees
"""
import json
import os
import re
import shutil
import subprocess
import sys

VERIF = os.path.dirname(os.path.dirname(os.path.abspath(__file__)))
CLAIMED = "C01 C02 C03 C06 C07 C08 C09 C10 C13 C14 C17 C18 C20".split()
ROOT = "/tmp/seedwork"

TEMPLATE = """# Your task

You are working on a scratch copy (a git worktree) of the Python library
**mundya/rig** (a toolkit for SpiNNaker machines) at

    {wt}

Work only inside `{wt}` and `{out}`. Do not read, list or touch `/repo` or
`/verif` (they are somebody else's; reading them would spoil the experiment),
and do not commit anything.

Python is `/venv/bin/python` (3.12). The library is installed from another
directory, so ALWAYS run things as

    cd {wt} && PYTHONPATH={wt} /venv/bin/python ...

and check once that `import rig; print(rig.__file__)` points into `{wt}`.
The test suite is run with

    cd {wt} && PYTHONPATH={wt} /venv/bin/python -m pytest -q -p no:cacheprovider --timeout=900 --continue-on-collection-errors 2>&1 | tail -40

(about 20 s). A handful of tests fail or error on the unmodified tree already
(Python 3.12 incompatibilities of the test-suite); record that set first.

## The property

The following statement is a semantic property of this library that its users
rely on:

> **{title}**
>
> {statement}

Code it is anchored in: {files}

## What to produce

Write a change to the library's *source* (never its tests) that makes this
property **false**, while

1. the code still imports and the existing test-suite gives exactly the same
   set of passing / failing tests as before your change, and
2. the change is **realistic**: something a maintainer could plausibly have
   committed in good faith. The flavour asked for in this round:

{theme}

3. the breakage needs **something specific to manifest** - a particular
   interleaving of network events, a fault or exception at a particular point,
   a multi-step sequence of operations, an unusual but legal input or
   configuration, or two code sites that each look fine alone and only go wrong
   together. A change that ordinary use of the library would expose at once is
   of no use. Violating the property must really be a consequence for legal
   use of the public API as the property states it (not merely for an input
   the original code rejects or that the property does not cover).

Ideas already used for this property in earlier rounds - yours must differ in
code site **and** in mechanism from all of them:

{avoid}

Then write a demonstration `demo.py`: a stand-alone, deterministic program
(standard library + rig + numpy/mock only; fake sockets or mock machines are
fine; no network, finishes within a minute) that exercises the library through
its public API, **exits 0 on the unmodified code and exits non-zero (with a
short message saying what went wrong) on the modified code**.

Put into `{out}`:

* `patch.diff` - `git -C {wt} diff` of your source change (source files only);
* `demo.py`;
* `meta.json` - `{{"property": "{pid}", "summary": "<what the change does and where>",
  "needs_to_manifest": "<what exactly is needed for the breakage to show>",
  "files": [...], "tests_before": "<pytest summary line>", "tests_after": "<pytest summary line>"}}`.

Before you finish, verify all of it yourself: `git stash` (or `git diff >
patch; git checkout .`) to run demo.py on the unmodified code (must exit 0),
re-apply, run it on the modified code (must exit non-zero), run the test-suite
both ways and compare the lists of failing tests. Leave the worktree with your
change applied. Your final answer: three or four sentences saying what you
changed, what it needs to manifest, and the results of those runs.
"""


def props():
    out = {}
    for line in open(os.path.join(VERIF, "properties.jsonl")):
        d = json.loads(line)
        out[d["id"]] = d
    return out


def avoid_lists():
    d = {}
    for line in open(os.path.join(VERIF, "DESIGN.md")):
        m = re.match(r"\| (C\d\d)-([a-z]+) \| (.*?) \| (.*?) \|", line)
        if m:
            d.setdefault(m.group(1), []).append("* %s (needed: %s)" % (m.group(3), m.group(4)))
    return d


def prepare(letter, theme_file, ids):
    theme = open(theme_file).read().rstrip()
    theme = "\n".join("   " + t for t in theme.splitlines())
    ps, av = props(), avoid_lists()
    for pid in ids:
        base = os.path.join(ROOT, letter, pid)
        wt, out = os.path.join(base, "wt"), os.path.join(base, "out")
        os.makedirs(out, exist_ok=True)
        if not os.path.isdir(wt):
            subprocess.check_call(["git", "-C", "/repo", "worktree", "add", "-q", "--detach", wt, "HEAD"])
        p = ps[pid]
        txt = TEMPLATE.format(wt=wt, out=out, pid=pid, title=p["title"], statement=p["statement"],
                              files=", ".join(p["anchors"]["files"]), theme=theme,
                              avoid="\n".join(av.get(pid, ["(none)"])))
        open(os.path.join(base, "INSTRUCTIONS.md"), "w").write(txt)
        print(os.path.join(base, "INSTRUCTIONS.md"))


def collect(letter):
    for pid in sorted(os.listdir(os.path.join(ROOT, letter))):
        out = os.path.join(ROOT, letter, pid, "out")
        if not all(os.path.exists(os.path.join(out, f)) for f in ("patch.diff", "demo.py", "meta.json")):
            print(pid, "incomplete")
            continue
        dst = os.path.join(VERIF, "seeded", "%s-%s" % (pid, letter))
        os.makedirs(dst, exist_ok=True)
        for f in ("patch.diff", "demo.py", "meta.json"):
            shutil.copy(os.path.join(out, f), os.path.join(dst, f))
        print(pid, "->", dst)


def clean(letter):
    base = os.path.join(ROOT, letter)
    for pid in sorted(os.listdir(base)):
        wt = os.path.join(base, pid, "wt")
        if os.path.isdir(wt):
            subprocess.call(["git", "-C", "/repo", "worktree", "remove", "--force", wt])
    shutil.rmtree(base, ignore_errors=True)
    subprocess.call(["git", "-C", "/repo", "worktree", "prune"])


if __name__ == "__main__":
    if sys.argv[1] == "--collect":
        collect(sys.argv[2])
    elif sys.argv[1] == "--clean":
        clean(sys.argv[2])
    else:
        prepare(sys.argv[1], sys.argv[2], sys.argv[3:] or CLAIMED)
