#!/venv/bin/python
"""Regenerate /verif/MANIFEST.json from the table below.  Only properties whose
engine module exists are listed as checks; the rest of the planned ones stay out
until their engine is committed (so MANIFEST.json is valid at every commit)."""
import json
import os

VERIF = os.path.dirname(os.path.dirname(os.path.abspath(__file__)))

ENGINE = {"C06": "scp", "C07": "mem", "C13": "memio", "C10": "rtr",
          "C14": "probe", "C09": "load", "C18": "ctx", "C20": "boot",
          "C01": "deploy", "C03": "deploy", "C02": "place", "C08": "bitfield",
          "C17": "history"}

TECH = "deterministic simulation with fault injection: seeded search over "\
       "schedules/fault sequences on a choice tape, %s"

CHECKS = {
    "C06": dict(
        text="Seeded exploration (thousands of simulated runs per check) of "
             "the real SCPConnection driven over a simulated lossy UDP network "
             "under a virtual clock: window, retransmission spacing, try "
             "count, exactly-once callbacks with the right reply, time-out and "
             "fatal-code errors are judged at the socket/clock seams on every "
             "event; bounded liveness after heal. Sampling, not proof.",
        ref="DESIGN.md section 6 (C06)",
        note="Trusted: the simulated network/clock, the echo peer and the "
             "independent wire codec. Datagram lifetime < 5 time-outs (no "
             "16-bit sequence wrap while a datagram is in flight).",
        tech=TECH % "monitors at the socket/select/time seams, echo peer"),
    "C07": dict(
        text="Seeded exploration of read/write/fill/struct/link memory "
             "operations of the real MachineController against a simulated "
             "machine memory with an operation-level shadow; all materialised "
             "pages of all chips compared after every operation; every command "
             "validated on arrival (buffer size, access type).",
        ref="DESIGN.md section 6 (C07)",
        note="Trusted: simulated SC&MP memory model written from rig's "
             "documentation; request delay/duplication beyond the call's "
             "return is not injected (stale request copies are inherent to "
             "SCP).",
        tech=TECH % "shadow-memory reference model as oracle"),
    "C13": dict(
        text="Seeded histories of seek/read/write/slice/close/free on real "
             "MemoryIO/SlicedMemoryIO views over the simulated machine: "
             "confinement of every command to the view's range is judged at "
             "the machine, behaviour against a fixed-length-file model.",
        ref="DESIGN.md section 6 (C13)",
        note="Trusted: simulated SDRAM heap and memory; file model.",
        tech=TECH % "fixed-length file reference model + address-confinement "
                    "monitor at the simulated machine"),
    "C10": dict(
        text="Seeded exploration of routing-table loading/reading/clearing "
             "against a simulated router with pre-fragmented free list, "
             "allocation failure and SCP faults; plus generated routing-tree "
             "sets folded independently and compared with "
             "routing_tree_to_tables (stated as the pure part).",
        ref="DESIGN.md section 6 (C10)",
        note="Trusted: simulated router/allocator model.",
        tech=TECH % "simulated router as state oracle"),
    "C14": dict(
        text="Seeded machine states (dead/unresponsive chips, core states, "
             "links, heaps, IOBUF chains, both sver encodings) probed by the "
             "real controller over the faulty network; SystemInfo, ChipInfo, "
             "Machine, core reservations compared with ground truth.",
        ref="DESIGN.md section 6 (C14)",
        note="Trusted: simulated machine state model; a chip is responding "
             "iff an ok reply from it reached the socket.",
        tech=TECH % "ground-truth machine state as oracle"),
    "C09": dict(
        text="Seeded exploration of load_application against a simulated "
             "flood-fill engine whose chips interpret region words themselves "
             "and miss fills per attempt; well-formedness of every fill and "
             "the final core states are judged.",
        ref="DESIGN.md section 6 (C09)",
        note="Trusted: simulated flood-fill/signal model; signals are not "
             "lost; use_count only when its documented precondition holds.",
        tech=TECH % "simulated flood-fill engine and cores as oracle"),
    "C18": dict(
        text="Seeded programs of nested contexts, application blocks, "
             "exceptions at any depth and every decorated method of "
             "MachineController/BMPController against a multi-board machine; "
             "an independent resolver predicts the values on the wire and the "
             "endpoint each datagram must arrive at.",
        ref="DESIGN.md section 6 (C18)",
        note="Trusted: independent resolver, board tiling model, per-method "
             "wire table.",
        tech=TECH % "independent argument resolver + per-endpoint capture"),
    "C20": dict(
        text="Seeded histories of boots in one process against a simulated "
             "boot-ROM endpoint: datagram sequence, block numbering, image "
             "reassembly, configuration area and option leakage between boots "
             "are judged at the socket seam.",
        ref="DESIGN.md section 6 (C20)",
        note="Trusted: independent sark.struct parser, boot codec.",
        tech=TECH % "boot-ROM peer + history oracle"),
    "C01": dict(
        text="Whole pipeline in one process: probed (faulty) machine -> place "
             "-> allocate -> route -> tables -> minimise -> load over the "
             "faulty network -> packets executed on a simulated multicast "
             "fabric; deliveries compared with the sinks' allocated cores.",
        ref="DESIGN.md section 6 (C01)",
        note="Trusted: simulated router fabric (first-match, default "
             "routing), machine model.",
        tech=TECH % "simulated multicast fabric execution as oracle"),
    "C03": dict(
        text="Router output walked on the simulated fabric for seeded fault "
             "maps (incl. one-directional dead links), tie-breaks from the "
             "tape, arbitrary memo state. Weaker fit (no temporal fault), "
             "stated in DESIGN.md.",
        ref="DESIGN.md section 6 (C03)",
        note="Trusted: simulated topology/fault map.",
        tech=TECH % "fault-map-as-state + tree walk on simulated fabric"),
    "C02": dict(
        text="All placers/kernels under tape-owned PRNG streams (incl. "
             "adversarial), simulated wall clock, cancellation at any "
             "temperature step; feasibility judged after every kernel step. "
             "Weaker fit, stated in DESIGN.md.",
        ref="DESIGN.md section 6 (C02)",
        note="Trusted: independent feasibility checker.",
        tech=TECH % "kernel wrapper monitors, adversarial PRNG/clock seams"),
    "C08": dict(
        text="Interleaved scripts of several BitField views sharing one field "
             "tree, judged against an independent tree model. Weaker fit, "
             "stated in DESIGN.md.",
        ref="DESIGN.md section 6 (C08)",
        note="Trusted: reference field-tree model.",
        tech=TECH % "scheduler-interleaved views vs reference model"),
    "C17": dict(
        text="Seeded call histories followed by a probe call, compared with "
             "the probe executed first in a pristine forked interpreter "
             "(restart oracle); deep snapshots of every argument.",
        ref="DESIGN.md section 6 (C17)",
        note="Trusted: structural snapshot function; same hash seed on both "
             "sides.",
        tech=TECH % "history vs pristine-fork (restart) oracle"),
}

NA = {
    "C04": "pure deterministic function of one routing table: no schedule, "
           "clock, fault or interleaving for a simulator to control; "
           "network-wide consequences of a wrong merge are caught by C01's "
           "fabric execution",
    "C05": "pure deterministic function of placement and constraints; no "
           "simulation target (double allocation would surface in C01)",
    "C11": "closed-form geometry whose only nondeterminism is a PRNG "
           "tie-break; input generation against BFS is property-based "
           "testing, not simulation",
    "C12": "pure function from a target set to region words; its "
           "consumer-side meaning is enforced where the simulated chips "
           "interpret the words (C09)",
    "C15": "pure codec; every datagram in every engine is cross-checked by "
           "the simulator's independent codec, but full-width field isolation "
           "is an input property",
    "C16": "pure numeric conversion",
    "C19": "finite table look-ups; complete enumeration is model "
           "checking/testing, not this family (used indirectly by C18)",
}


def main():
    checks = []
    engines = {}
    pending = []
    for pid in sorted(CHECKS):
        eng = ENGINE[pid]
        if not os.path.exists(os.path.join(VERIF, "engines", eng + ".py")):
            pending.append(pid)
            continue
        c = CHECKS[pid]
        engines.setdefault(eng, []).append(pid)
        checks.append({
            "property_id": pid,
            "quick_cmd": "./check %s --tier quick" % pid,
            "thorough_cmd": "./check %s --tier thorough" % pid,
            "evidence_file": "/verif/evidence/%s.json" % pid,
            "replay_cmd_template": "./check %s --replay {path}" % pid,
            "engine": eng,
            "level_claimed": {"category": "exploration", "text": c["text"],
                              "design_ref": c["ref"]},
            "level_note": c["note"],
            "technique": c["tech"],
        })
    na = [{"property_id": k, "reason": v} for k, v in sorted(NA.items())]
    for pid in pending:
        na.append({"property_id": pid,
                   "reason": "planned (DESIGN.md section 6) but its engine is "
                             "not committed yet - not claimed at this commit"})
    na.sort(key=lambda d: d["property_id"])
    doc = {
        "version": 1,
        "setup_cmd": "./setup.sh",
        "hooks": {
            "guard": "RIG_VERIF",
            "enable": "none needed: every seam is an existing module "
                      "attribute or argument of rig (socket, select, time, "
                      "random, open); checks set RIG_VERIF=1 but no code in "
                      "/repo reads it",
            "baseline_off_cmd": "cd /repo && env -u RIG_VERIF /venv/bin/python "
                                "-m pytest -ra -q -p no:cacheprovider "
                                "--timeout=900 "
                                "--continue-on-collection-errors",
            "source_commits": [],
            "add_only": True,
        },
        "engines": [{"name": e, "path": "engines/%s.py" % e,
                     "serves_properties": p,
                     "kind_free_text": "deterministic simulation engine "
                                       "(rigsim core)"}
                    for e, p in sorted(engines.items())],
        "checks": checks,
        "not_applicable": na,
        "notes": "All checks: /verif/check <ID>; exit 0 held, 1 VIOLATION, 2 "
                 "harness error/time-out. Known findings: "
                 "/verif/known_findings.json. fix: commits in /repo are "
                 "listed there as status=fixed.",
    }
    with open(os.path.join(VERIF, "MANIFEST.json"), "w") as f:
        json.dump(doc, f, indent=1)
        f.write("\n")
    print("MANIFEST.json: %d checks, %d not_applicable (%d pending)"
          % (len(checks), len(na), len(pending)))


if __name__ == "__main__":
    main()
