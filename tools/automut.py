#!/venv/bin/python
"""Mechanical mutation sweep over the functions the properties are anchored in
(a development aid, not a registered check): for each listed function apply
classic single-point mutation operators (relational, arithmetic, boolean,
small-constant, slice/`range` bound) through the AST, write the mutant into a
scratch copy of /repo (outside /repo and /verif, removed at the end), run the
property's quick check against it with a reduced budget and record whether it
was killed.

usage: tools/automut.py OUT.jsonl [PROP ...] [--per-func N] [--runs N] [--rng N]
"""
import ast
import copy
import json
import os
import random
import shutil
import subprocess
import sys
import tempfile

VERIF = os.path.dirname(os.path.dirname(os.path.abspath(__file__)))

MC = "rig/machine_control/machine_controller.py"
SCP = "rig/machine_control/scp_connection.py"
NER = "rig/place_and_route/route/ner.py"
TARGETS = {
    "C01": [("rig/routing_table/utils.py", ["routing_tree_to_tables"]),
            ("rig/routing_table/minimise.py", ["minimise_tables",
                                               "minimise_table"]),
            ("rig/routing_table/remove_default_routes.py",
             ["minimise", "_is_defaultable"]),
            ("rig/routing_table/ordered_covering.py",
             ["ordered_covering", "_get_best_merge", "_get_all_merges",
              "_get_insertion_index", "_refine_merge", "_refine_upcheck",
              "_refine_downcheck", "_get_covered_keys_and_masks", "apply"])],
    "C02": [("rig/place_and_route/place/utils.py",
             ["apply_same_chip_constraints", "finalise_same_chip_constraints",
              "apply_reserve_resource_constraint", "subtract_resources",
              "add_resources", "overallocated", "resources_after_reservation"]),
            ("rig/place_and_route/place/sequential.py", ["place"]),
            ("rig/place_and_route/place/sa/python_kernel.py",
             ["_step", "_swap", "_vertex_net_cost", "_get_candidate_swap",
              "run_steps"]),
            ("rig/place_and_route/place/sa/algorithm.py",
             ["place", "_initial_placement"]),
            ("rig/place_and_route/place/sa/c_kernel.py", ["__init__"]),
            ("rig/place_and_route/place/rand.py", ["place"]),
            ("rig/place_and_route/place/breadth_first.py", ["place"]),
            ("rig/place_and_route/place/hilbert.py", ["place"]),
            ("rig/place_and_route/place/rcm.py", ["place"])],
    "C03": [(NER, ["ner_net", "copy_and_disconnect_tree", "a_star",
                   "avoid_dead_links", "route", "route_has_dead_links"]),
            ("rig/place_and_route/route/utils.py",
             ["links_between", "longest_dimension_first"])],
    "C06": [(SCP, ["send_scp_burst", "seqs", "send_scp"])],
    "C07": [(SCP, ["read", "write"]),
            (MC, ["read", "write", "fill", "_get_struct_field_and_address",
                  "_get_vcpu_field_and_address", "read_across_link",
                  "write_across_link", "read_struct_field",
                  "write_struct_field", "read_vcpu_struct_field",
                  "write_vcpu_struct_field"])],
    "C08": [("rig/bitfield.py",
             ["assign_fields", "_assign_fields", "_assign_field", "add_field",
              "get_value", "get_mask", "_select_by_field_or_tag", "__call__",
              "get_location_and_length", "_potential_children",
              "_enabled_children", "potential_fields", "enabled_fields",
              "get_field"])],
    "C09": [(MC, ["load_application", "flood_fill_aplx", "_send_ffs",
                  "_send_ffcs", "_send_ffd", "_send_ffe", "_get_next_nn_id",
                  "send_signal", "count_cores_in_state"]),
            ("rig/machine_control/regions.py",
             ["get_regions_and_coremasks", "add_core",
              "compress_flood_fill_regions", "get_region_for_chip"])],
    "C10": [("rig/place_and_route/routing_tree.py", ["traverse"]),
            ("rig/routing_table/utils.py", ["routing_tree_to_tables"]),
            (MC, ["load_routing_table_entries", "load_routing_tables",
                  "get_routing_table_entries", "unpack_routing_table_entry",
                  "clear_routing_table_entries"])],
    "C13": [(MC, ["read", "write", "__getitem__", "seek", "tell", "close",
                  "free", "f_", "sdram_alloc_as_filelike", "flush",
                  "__len__"])],
    "C14": [(MC, ["get_chip_info", "get_p2p_routing_table", "get_system_info",
                  "dead_chips", "dead_links", "get_iobuf_bytes",
                  "get_processor_status", "get_router_diagnostics",
                  "get_working_links", "get_num_working_cores",
                  "get_ip_address", "unpack_sver_response_version"]),
            ("rig/place_and_route/utils.py",
             ["build_machine", "build_core_constraints",
              "_get_minimal_core_reservations"]),
            ("rig/routing_table/utils.py",
             ["build_routing_table_target_lengths"])],
    "C17": [("rig/place_and_route/machine.py", ["copy", "__init__"]),
            (NER, ["memoized_concentric_hexagons"]),
            ("rig/utils/contexts.py", ["__init__"]),
            ("rig/place_and_route/wrapper.py",
             ["wrapper", "place_and_route_wrapper"])],
    "C18": [("rig/utils/contexts.py",
             ["use_contextual_arguments", "get_context_arguments", "f_",
              "__enter__", "__exit__", "update", "__call__"]),
            (MC, ["_get_connection", "_send_scp", "discover_connections",
                  "application", "__call__"]),
            ("rig/machine_control/bmp_controller.py",
             ["_send_scp", "set_power", "set_led", "read_fpga_reg",
              "write_fpga_reg", "read_adc", "get_software_version"])],
    "C20": [("rig/machine_control/boot.py", ["boot", "boot_packet"]),
            ("rig/machine_control/struct_file.py",
             ["pack", "update_default_values", "read_struct_file",
              "num_bytes_to_struct_char"]),
            (MC, ["boot"])],
}

CMP = {ast.Lt: ast.LtE, ast.LtE: ast.Lt, ast.Gt: ast.GtE, ast.GtE: ast.Gt,
       ast.Eq: ast.NotEq, ast.NotEq: ast.Eq, ast.Is: ast.IsNot,
       ast.IsNot: ast.Is, ast.In: ast.NotIn, ast.NotIn: ast.In}
BIN = {ast.Add: ast.Sub, ast.Sub: ast.Add, ast.Mult: ast.FloorDiv,
       ast.FloorDiv: ast.Mult, ast.LShift: ast.RShift,
       ast.RShift: ast.LShift, ast.BitAnd: ast.BitOr, ast.BitOr: ast.BitAnd,
       ast.Mod: ast.FloorDiv}


def sites(func):
    """-> list of (description, mutate(node_copy_root) -> None)."""
    out = []
    for node in ast.walk(func):
        if isinstance(node, ast.Compare):
            for i, op in enumerate(node.ops):
                if type(op) in CMP:
                    out.append(("cmp", node, i))
        elif isinstance(node, ast.BinOp) and type(node.op) in BIN:
            out.append(("bin", node, None))
        elif isinstance(node, ast.BoolOp):
            out.append(("bool", node, None))
        elif isinstance(node, ast.UnaryOp) and isinstance(node.op, ast.Not):
            out.append(("not", node, None))
        elif isinstance(node, ast.Constant) and type(node.value) is int \
                and abs(node.value) <= 64:
            out.append(("const+", node, None))
            if node.value != 0:
                out.append(("const-", node, None))
        elif isinstance(node, ast.Constant) and isinstance(node.value, bool):
            out.append(("boolconst", node, None))
        elif isinstance(node, (ast.Break,)):
            out.append(("break", node, None))
        elif isinstance(node, ast.AugAssign) and type(node.op) in BIN:
            out.append(("aug", node, None))
    return out


def apply(kind, node, idx):
    if kind == "cmp":
        node.ops[idx] = CMP[type(node.ops[idx])]()
    elif kind == "bin" or kind == "aug":
        node.op = BIN[type(node.op)]()
    elif kind == "bool":
        node.op = ast.Or() if isinstance(node.op, ast.And) else ast.And()
    elif kind == "not":
        node.op = ast.UAdd()
        # `+x` on a bool keeps truthiness of x for ints/bools; use a wrapper
    elif kind == "const+":
        node.value = node.value + 1
    elif kind == "const-":
        node.value = node.value - 1
    elif kind == "boolconst":
        node.value = not node.value


def mutants_for(path, names, per_func, rng):
    src = open(os.path.join("/repo", path)).read()
    tree = ast.parse(src)
    funcs = [n for n in ast.walk(tree)
             if isinstance(n, (ast.FunctionDef,)) and n.name in names]
    out = []
    for f in funcs:
        ss = [s for s in sites(f) if s[0] != "not"]
        rng.shuffle(ss)
        for kind, node, idx in ss[:per_func]:
            # re-parse so that each mutant is independent
            t2 = ast.parse(src)
            # locate the same node by position
            target = None
            for n2 in ast.walk(t2):
                if type(n2) is type(node) and \
                        getattr(n2, "lineno", None) == node.lineno and \
                        getattr(n2, "col_offset", None) == node.col_offset \
                        and getattr(n2, "end_col_offset", None) == \
                        node.end_col_offset:
                    target = n2
                    break
            if target is None:
                continue
            before = ast.unparse(target)
            if kind == "break":
                # replace by continue
                target.__class__ = ast.Continue
            else:
                apply(kind, target, idx)
            after = ast.unparse(target)
            if before == after:
                continue
            out.append({"file": path, "func": f.name, "line": node.lineno,
                        "kind": kind, "before": before[:80],
                        "after": after[:80], "source": ast.unparse(t2)})
    return out


def main():
    args = sys.argv[1:]
    outp = args.pop(0)
    per_func, runs, rng_seed = 6, None, 20260924
    props = []
    while args:
        a = args.pop(0)
        if a == "--per-func":
            per_func = int(args.pop(0))
        elif a == "--runs":
            runs = args.pop(0)
        elif a == "--rng":
            rng_seed = int(args.pop(0))
        else:
            props.append(a)
    props = props or list(TARGETS)
    rng = random.Random(rng_seed)
    tmp = tempfile.mkdtemp(prefix="rigautomut-")
    subprocess.check_call(["rsync", "-a", "--exclude", ".git", "--exclude",
                           "__pycache__", "/repo/", tmp + "/"])
    done = set()
    if os.path.exists(outp):
        for line in open(outp):
            d = json.loads(line)
            done.add((d["prop"], d["file"], d["line"], d["kind"], d["after"]))
    try:
        with open(outp, "a") as out:
            for prop in props:
                for path, names in TARGETS[prop]:
                    for m in mutants_for(path, names, per_func, rng):
                        key = (prop, m["file"], m["line"], m["kind"],
                               m["after"])
                        if key in done:
                            continue
                        fp = os.path.join(tmp, path)
                        orig = open(fp).read()
                        open(fp, "w").write(m["source"])
                        cmd = [os.path.join(VERIF, "check"), prop,
                               "--no-evidence", "--budget", "25"]
                        if runs:
                            cmd += ["--runs", runs]
                        try:
                            p = subprocess.run(
                                cmd, env=dict(os.environ, VERIF_REPO=tmp),
                                capture_output=True, text=True, timeout=900)
                            rc = p.returncode
                            mon = ""
                            for ln in p.stdout.splitlines():
                                if ln.startswith("VIOLATION"):
                                    mon = ln.split("replays/")[-1].split(
                                        "-")[1] if "replays/" in ln else "?"
                                    rp = ln.split("replay=")[-1]
                                    if os.path.exists(rp) and "/replays/" \
                                            in rp:
                                        os.remove(rp)
                        except subprocess.TimeoutExpired:
                            rc, mon = 124, "timeout"
                        open(fp, "w").write(orig)
                        rec = {k: v for k, v in m.items() if k != "source"}
                        rec.update(prop=prop, rc=rc, monitor=mon)
                        out.write(json.dumps(rec) + "\n")
                        out.flush()
                        print(prop, m["file"].split("/")[-1], m["func"],
                              m["line"], m["kind"], repr(m["before"][:40]),
                              "->", repr(m["after"][:40]),
                              "KILLED" if rc == 1 else
                              ("SURVIVED" if rc == 0 else "rc=%d" % rc), mon,
                              flush=True)
    finally:
        shutil.rmtree(tmp, ignore_errors=True)


if __name__ == "__main__":
    main()
