#!/bin/sh
# Run checks against a seeded change: tools/try_seeded.sh <seeded-dir> [PROP ...] [-- extra check args]
# (scratch copy of /repo with the patch applied, used through VERIF_REPO; removed afterwards)
d=$(cd "$1" && pwd); shift
props=""; extra=""
while [ $# -gt 0 ]; do if [ "$1" = "--" ]; then shift; extra="$*"; break; fi; props="$props $1"; shift; done
[ -n "$props" ] || props=$(jq -r .property "$d/meta.json")
tmp=$(mktemp -d /tmp/rigseed-XXXXXX)
rsync -a --exclude .git --exclude __pycache__ /repo/ "$tmp/"
if ! (cd "$tmp" && patch -p1 -s < "$d/patch.diff"); then echo "PATCH-FAILED"; rm -rf "$tmp"; exit 2; fi
if [ -f "$d/demo.py" ]; then
  (cd /tmp && PYTHONPATH="$tmp" timeout 300 /venv/bin/python "$d/demo.py" >/dev/null 2>&1); echo "demo on patched copy: exit=$? (expected non-zero)"
  (cd /tmp && PYTHONPATH=/repo timeout 300 /venv/bin/python "$d/demo.py" >/dev/null 2>&1); echo "demo on /repo:        exit=$? (expected 0)"
fi
for p in $props; do
  out=$(cd /verif && VERIF_REPO="$tmp" timeout 3000 ./check "$p" --no-evidence $extra 2>&1); rc=$?
  echo "check $p on patched copy: exit=$rc"
  echo "$out" | grep -A1 "^VIOLATION" | head -6
  for r in $(echo "$out" | sed -n 's/^VIOLATION property=[^ ]* replay=\(.*\)$/\1/p'); do
     rp=$(cd /verif && VERIF_REPO="$tmp" ./check "$p" --replay "$r" 2>&1 | tail -1); echo "   replay: $rp"
     rm -f "$r"
  done
done
rm -rf "$tmp"
