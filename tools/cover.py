#!/venv/bin/python
"""Development aid (not a registered check): which lines of the functions a
property is anchored in does the engine's workload never execute?

    tools/cover.py PROP[,PROP...] [--runs N] [--seed N] [--tier quick|thorough] [--all]

Runs N simulated runs of the property's engine *in this process* (no pool, no
forked children - the ISOLATE engines fork per run, so for them the runs are
executed without isolation here; outcomes are not judged by this tool) under
coverage.py restricted to /repo/rig, and prints the lines never reached,
grouped by function, for the files named in the property's anchors (--all: for
every file of the library that was imported).  A line that stays unreached
after a few thousand runs marks state or input the generator does not produce.
"""
import ast
import json
import os
import sys

VERIF = os.path.dirname(os.path.dirname(os.path.abspath(__file__)))
sys.path.insert(0, VERIF)
os.environ.setdefault("RIG_VERIF", "1")


def func_spans(path):
    tree = ast.parse(open(path).read())
    spans = []

    def walk(node, prefix):
        for ch in ast.iter_child_nodes(node):
            if isinstance(ch, (ast.FunctionDef, ast.ClassDef)):
                name = prefix + ch.name
                if isinstance(ch, ast.FunctionDef):
                    spans.append((ch.lineno, ch.end_lineno, name))
                walk(ch, name + ".")
    walk(tree, "")
    return spans


def main():
    import argparse
    ap = argparse.ArgumentParser()
    ap.add_argument("prop")
    ap.add_argument("--runs", type=int, default=600)
    ap.add_argument("--seed", type=int, default=0)
    ap.add_argument("--tier", default="quick")
    ap.add_argument("--all", action="store_true")
    ap.add_argument("--branches", action="store_true",
                    help="also list branches taken in one direction only")
    a = ap.parse_args()
    import warnings
    warnings.simplefilter("ignore")
    import coverage
    repo = os.environ.get("VERIF_REPO", "/repo")
    cov = coverage.Coverage(data_file=None, include=[repo + "/rig/*"],
                            branch=a.branches)
    sys.path.insert(0, repo)
    from rigsim import runner, engines_registry
    from rigsim.core import Tape, derive_seed
    props = a.prop.split(",")
    cov.start()
    bad = 0
    anchors = []
    for prop in props:
        engine = engines_registry.get(engines_registry.PROPERTY_ENGINE[prop])
        for i in range(a.runs):
            o = runner.execute(engine, prop, a.tier,
                               Tape(seed=derive_seed(a.seed, prop, i)),
                               index=i, known=runner.load_known_findings())
            if o.violation is not None or o.harness_error is not None:
                bad += 1
        for line in open(os.path.join(VERIF, "properties.jsonl")):
            d = json.loads(line)
            if d["id"] == prop:
                anchors += d["anchors"]["files"]
    cov.stop()
    data = cov.get_data()
    print("%s: %d runs in-process (%d with a violation / harness error: "
          "isolation is off here)" % (a.prop, a.runs, bad))
    for f in sorted(data.measured_files()):
        rel = os.path.relpath(f, repo)
        if not a.all and not any(rel == x or rel.startswith(x.rstrip("/") + "/")
                                 for x in anchors):
            continue
        _fn, stmts, _excl, missing, _fmt = cov.analysis2(f)
        if a.branches:
            an = cov._analyze(f)
            arcs = an.missing_branch_arcs()
            part = sorted((src_, dst) for src_, dsts in arcs.items()
                          for dst in dsts if src_ not in missing)
            if part:
                src_lines = open(f).read().splitlines()
                print("\n%s  branches never taken:" % rel)
                for a_, b_ in part:
                    print("   %5d -> %-5s %s" % (
                        a_, b_ if b_ > 0 else "exit",
                        src_lines[a_ - 1].strip()[:90]))
        if not missing:
            continue
        spans = func_spans(f)
        by_func = {}
        for ln in missing:
            best = None
            for lo, hi, name in spans:
                if lo <= ln <= hi and (best is None or lo >= best[0]):
                    best = (lo, hi, name)
            by_func.setdefault(best[2] if best else "<module>", []).append(ln)
        print("\n%s  (%d of %d statements never reached)"
              % (rel, len(missing), len(stmts)))
        src = open(f).read().splitlines()
        for name, lines in sorted(by_func.items(), key=lambda kv: kv[1][0]):
            # a function of which nothing but the def line ran was never called
            print("  %-46s %s" % (name, " ".join(map(str, lines[:40]))
                                  + (" ..." if len(lines) > 40 else "")))
            if len(lines) <= 6:
                for ln in lines:
                    print("        %5d: %s" % (ln, src[ln - 1].strip()[:100]))


if __name__ == "__main__":
    main()
