#!/bin/sh
# Offline setup: nothing to compile.  Verifies the interpreter, that rig is the
# /repo working tree, and creates output directories.
set -e
cd "$(dirname "$0")"
mkdir -p evidence replays
/venv/bin/python - <<'PY'
import sys
sys.path.insert(0, "/repo")
import rig, os
assert os.path.realpath(rig.__file__).startswith("/repo/"), rig.__file__
import numpy, six, sentinel, enum  # rig's own dependencies
import rig_c_sa  # C annealing kernel (already built in /venv)
print("setup ok: python", sys.version.split()[0], "rig from", rig.__file__)
PY
