"""Deterministic-simulation core: choice tape, discrete-event queue, virtual
clock, trace/digest.  Nothing in here knows about rig.

One integer (the run seed) decides everything: every choice any part of the
simulation makes is a draw from the Tape, which records what it drew.  A
recorded tape is the replay file: replaying it is a pure function of the tape
and the code.  Value 0 is always the most benign choice and reading past the
end of a recorded segment yields 0, so that deleting or zeroing entries always
gives a valid, simpler run (this is what the shrinker relies on).
"""
import hashlib
import heapq
import random


class SimAbort(BaseException):
    """The run exceeded a budget (seam calls, events, virtual time).

    Derives from BaseException so that no ``except Exception`` / ``except
    IOError`` in the code under test can swallow it."""

    def __init__(self, kind, message):
        BaseException.__init__(self, "%s: %s" % (kind, message))
        self.kind = kind
        self.message = message


class Violation(BaseException):
    """A monitor fired.  Carries the monitor id and a stable signature."""

    def __init__(self, monitor, message, signature=None):
        BaseException.__init__(self, "%s: %s" % (monitor, message))
        self.monitor = monitor
        self.message = message
        self.signature = dict(signature or {})


def match_known(findings, prop, monitor, signature):
    """A violation matches a known finding iff property and monitor are equal
    and every key of the entry's ``match`` equals the violation's signature."""
    for k in findings:
        if k.get("status") != "known" or k.get("property") != prop:
            continue
        if k.get("monitor") != monitor:
            continue
        m = k.get("match", {})
        if all(str(signature.get(key)) == str(val) for key, val in m.items()):
            return k
    return None


def derive_seed(*parts):
    h = hashlib.sha256(":".join(str(p) for p in parts).encode()).digest()
    return int.from_bytes(h[:8], "big")


class Tape(object):
    """Structured choice tape: {"config": [...], "ops": [[...], ...],
    "tail": [...]}.

    ``config`` holds the world/knob choices; each entry of ``ops`` belongs to
    one generated operation (fault choices made while that operation runs are
    drawn from its segment); ``tail`` belongs to the closing (healed) phase.
    """

    def __init__(self, seed=None, segments=None):
        self.seed = seed
        self.replaying = segments is not None
        if self.replaying:
            self._rec = {"config": list(segments.get("config", [])),
                         "ops": [list(s) for s in segments.get("ops", [])],
                         "tail": list(segments.get("tail", []))}
            self.rng = None
        else:
            self._rec = None
            self.rng = random.Random(seed)
        self.segments = {"config": [], "ops": [], "tail": []}
        self._cur = self.segments["config"]
        self._src = self._rec["config"] if self.replaying else None
        self._cursor = 0
        self.draws = 0

    # -- segment control ---------------------------------------------------
    def op_count(self, lo, hi, weights=None):
        """Number of operation segments for this run."""
        if self.replaying:
            return len(self._rec["ops"])
        if weights:
            return self.rng.choices(range(lo, hi + 1), weights)[0]
        return self.rng.randint(lo, hi)

    def next_segment(self):
        """Begin the next operation's segment."""
        k = len(self.segments["ops"])
        self.segments["ops"].append([])
        self._cur = self.segments["ops"][-1]
        if self.replaying:
            ops = self._rec["ops"]
            self._src = ops[k] if k < len(ops) else []
        self._cursor = 0

    def begin_tail(self):
        self._cur = self.segments["tail"]
        if self.replaying:
            self._src = self._rec["tail"]
        self._cursor = 0

    # -- raw access --------------------------------------------------------
    def _read(self):
        seg = self._src
        v = seg[self._cursor] if self._cursor < len(seg) else 0
        self._cursor += 1
        return v

    def _put(self, v):
        self._cur.append(v)
        self.draws += 1
        return v

    # -- draws ---------------------------------------------------------------
    def draw(self, n):
        """Integer in [0, n); 0 is the simplest."""
        if n <= 1:
            return 0
        if self.replaying:
            v = self._read()
            if not isinstance(v, int) or v < 0:
                v = 0
            v = v % n
        else:
            v = self.rng.randrange(n)
        return self._put(v)

    def edge(self, n):
        """Integer in [0, n) with the ends of the range over-represented
        (uniform two times in three)."""
        if n <= 2:
            return self.draw(n)
        sel = self.draw(6)
        if sel <= 3:
            return self.draw(n)
        if sel == 4:
            return n - 1
        return [0, 1, n // 2, n - 2][self.draw(4)]

    def draw_small(self, n, p=0.5):
        """Integer in [0, n) biased geometrically towards 0."""
        if n <= 1:
            return 0
        if self.replaying:
            v = self._read()
            if not isinstance(v, int) or v < 0:
                v = 0
            v = v % n
        else:
            v = 0
            while v < n - 1 and self.rng.random() < p:
                v += 1
        return self._put(v)

    def rng_range(self, lo, hi):
        return lo + self.draw(hi - lo + 1)

    def chance(self, p):
        """True with probability p (recorded as 0/1; 0 = benign)."""
        if self.replaying:
            v = 1 if self._read() else 0
            if p <= 0:
                v = 0
        else:
            v = 1 if (p > 0 and self.rng.random() < p) else 0
        return bool(self._put(v))

    def weighted(self, weights):
        """Index into weights; put the benign alternative first."""
        n = len(weights)
        if self.replaying:
            v = self._read()
            if not isinstance(v, int) or v < 0:
                v = 0
            v = v % n
            if weights[v] <= 0:
                v = next(i for i, w in enumerate(weights) if w > 0)
        else:
            v = self.rng.choices(range(n), weights)[0]
        return self._put(v)

    def choice(self, seq):
        return seq[self.draw(len(seq))]

    def subseed(self):
        """A 32-bit seed to hand to a random.Random given to the code under
        test."""
        return self.draw(1 << 32)

    def real(self, lo, hi, steps=1000):
        return lo + (hi - lo) * self.draw(steps + 1) / float(steps)

    def bytes(self, n):
        """n pseudo-random bytes derived from one tape draw (so that payloads
        cost one tape entry, not n)."""
        s = self.draw(1 << 30)
        r = random.Random(s)
        return bytes(r.getrandbits(8) for _ in range(n)) if n else b""


class Trace(object):
    """Event log.  ``full`` digest covers kinds and details; ``abstract``
    digest covers kinds only (used to count distinct interleavings)."""

    def __init__(self, keep=400):
        self.keep = keep
        self.events = []
        self.n = 0
        self._full = hashlib.sha256()
        self._abs = hashlib.sha256()

    def ev(self, kind, *details):
        self.n += 1
        self._abs.update(kind.encode())
        self._abs.update(b";")
        line = kind + "(" + ",".join(_fmt(d) for d in details) + ")"
        self._full.update(line.encode())
        self._full.update(b"\n")
        if len(self.events) < self.keep:
            self.events.append(line)
        return self.n

    def digest(self):
        return self._full.hexdigest()[:24]

    def abstract_digest(self):
        return self._abs.hexdigest()[:24]


def _fmt(d):
    if isinstance(d, float):
        return "%.6f" % d
    if isinstance(d, (bytes, bytearray)):
        if len(d) <= 12:
            return d.hex()
        return "%d:%s" % (len(d), hashlib.sha256(bytes(d)).hexdigest()[:10])
    return str(d)


class Sim(object):
    """Event queue + virtual clock.

    ``now`` is true simulated time; ``host_offset`` models the host's wall
    clock being wrong (jumps).  Code under test only ever sees ``host_now``.
    """

    TICK = 1e-6

    def __init__(self, trace, max_events=2000000, max_seam_calls=4000000,
                 max_virtual_time=1e7):
        self.now = 0.0
        self.host_offset = 1.7e9  # looks like a unix time
        self._heap = []
        self._seq = 0
        self.trace = trace
        self.events_run = 0
        self.seam_calls = 0
        self.max_events = max_events
        self.max_seam_calls = max_seam_calls
        self.max_virtual_time = max_virtual_time

    # -- scheduling ----------------------------------------------------------
    def after(self, delay, fn, *args):
        self._seq += 1
        heapq.heappush(self._heap, (self.now + max(0.0, delay), self._seq,
                                    fn, args))

    def pending(self):
        return len(self._heap)

    def _pop_run(self):
        t, _seq, fn, args = heapq.heappop(self._heap)
        if t > self.now:
            self.now = t
        self.events_run += 1
        if self.events_run > self.max_events:
            raise SimAbort("EVENT-BUDGET", "more than %d events"
                           % self.max_events)
        fn(*args)

    def run_due(self):
        while self._heap and self._heap[0][0] <= self.now:
            self._pop_run()

    def run_until(self, deadline, cond=None):
        """Run events up to ``deadline``; stop early when ``cond()``.  Returns
        True if cond became true."""
        while True:
            if cond is not None and cond():
                return True
            if self._heap and self._heap[0][0] <= deadline:
                self._pop_run()
                continue
            if deadline > self.now:
                self.now = deadline
            if self.now > self.max_virtual_time:
                raise SimAbort("VIRTUAL-TIME-BUDGET", "t=%f" % self.now)
            return bool(cond()) if cond is not None else False

    def drain(self, horizon):
        """Run everything scheduled up to now+horizon (used between ops)."""
        self.run_until(self.now + horizon)

    # -- seam accounting ---------------------------------------------------
    def seam(self):
        self.seam_calls += 1
        if self.seam_calls > self.max_seam_calls:
            raise SimAbort("SEAM-CALL-BUDGET",
                           "more than %d seam calls (livelock?) at t=%f"
                           % (self.max_seam_calls, self.now))

    @property
    def host_now(self):
        return self.now + self.host_offset


class World(object):
    """Everything one simulated run shares."""

    def __init__(self, tape, keep_trace=400, **sim_kwargs):
        import collections
        self.tape = tape
        self.trace = Trace(keep_trace)
        self.sim = Sim(self.trace, **sim_kwargs)
        self.faults = collections.Counter()   # kind -> times actually fired
        self.probes = collections.Counter()   # rare-branch name -> hits
        self.violation = None                 # first Violation
        self.ops = []                         # human-readable op list
        self.ops_completed = 0
        self.known_findings = []
        self.known_hits = []
        self.prop = None

    def fault(self, kind, n=1):
        self.faults[kind] += n

    def probe(self, name, n=1):
        self.probes[name] += n

    def _known(self, monitor, signature):
        k = match_known(getattr(self, "known_findings", None) or [],
                        getattr(self, "prop", None), monitor, signature)
        if k is not None:
            what = k.get("what", monitor)
            if what not in self.known_hits:
                self.known_hits.append(what)
            return True
        return False

    def violate(self, monitor, message, **signature):
        """Record (first one wins) and raise - unless the violation matches a
        listed known finding, in which case it is noted and the call returns
        (the caller then re-synchronises its model and carries on, so that a
        different violation in the same run is still found)."""
        if self._known(monitor, signature):
            return
        v = Violation(monitor, message, signature)
        if self.violation is None:
            self.violation = v
            self.trace.ev("VIOLATION", monitor, message)
        raise v

    def note_violation(self, monitor, message, **signature):
        """Record without raising (for use inside event callbacks where
        raising would unwind through the event queue)."""
        if self._known(monitor, signature):
            return
        if self.violation is None:
            self.violation = Violation(monitor, message, signature)
            self.trace.ev("VIOLATION", monitor, message)

    def check_pending(self):
        if self.violation is not None:
            raise self.violation
