"""Independent wire codecs (never imports rig.machine_control.packets).

Layouts are by explicit byte offset, as documented in rig's docstrings:

  datagram = 2 pad bytes | SDP header (8 bytes) | SCP: cmd_rc u16, seq u16,
             0-3 u32 arguments, data
  SDP header = flags, tag, dest_port<<5|dest_cpu, src_port<<5|src_cpu,
               dest_y, dest_x, src_y, src_x
"""
import re


def u16(b, o):
    return b[o] | (b[o + 1] << 8)


def u32(b, o):
    return b[o] | (b[o + 1] << 8) | (b[o + 2] << 16) | (b[o + 3] << 24)


def p16(v):
    v &= 0xffff
    return bytes((v & 0xff, v >> 8))


def p32(v):
    v &= 0xffffffff
    return bytes((v & 0xff, (v >> 8) & 0xff, (v >> 16) & 0xff, v >> 24))


class Req(object):
    __slots__ = ("raw", "flags", "tag", "dest_port", "dest_cpu", "src_port",
                 "src_cpu", "dest_y", "dest_x", "src_y", "src_x", "cmd", "seq",
                 "body", "wellformed")

    def arg(self, i):
        """i-th u32 of the body (0-based) or None when absent."""
        o = 4 * i
        if len(self.body) >= o + 4:
            return u32(self.body, o)
        return None

    def data(self, n_args=3):
        return self.body[4 * n_args:]

    @property
    def x(self):
        return self.dest_x

    @property
    def y(self):
        return self.dest_y


def parse_scp(datagram):
    r = Req()
    r.raw = datagram
    r.wellformed = len(datagram) >= 14 and datagram[0] == 0 and \
        datagram[1] == 0
    d = bytes(datagram) + b"\0" * 14
    r.flags = d[2]
    r.tag = d[3]
    r.dest_port = d[4] >> 5
    r.dest_cpu = d[4] & 0x1f
    r.src_port = d[5] >> 5
    r.src_cpu = d[5] & 0x1f
    r.dest_y = d[6]
    r.dest_x = d[7]
    r.src_y = d[8]
    r.src_x = d[9]
    r.cmd = u16(d, 10)
    r.seq = u16(d, 12)
    r.body = bytes(datagram[14:])
    return r


def build_reply(req, rc, args=(), data=b"", src_xy=None):
    """Reply to ``req``: source and destination swapped, request's seq."""
    sx, sy = src_xy if src_xy is not None else (req.dest_x, req.dest_y)
    hdr = bytes((0, 0,
                 0x07, req.tag,
                 (req.src_port << 5) | req.src_cpu,
                 (req.dest_port << 5) | req.dest_cpu,
                 req.src_y, req.src_x,
                 sy & 0xff, sx & 0xff))
    out = hdr + p16(rc) + p16(req.seq)
    for a in args:
        out += p32(a)
    return out + bytes(data)


# -- boot protocol -----------------------------------------------------------

def parse_boot(datagram):
    """-> (version, cmd, a1, a2, a3, payload_bytes_unswapped) or None."""
    if len(datagram) < 18:
        return None
    b = datagram

    def be32(o):
        return (b[o] << 24) | (b[o + 1] << 16) | (b[o + 2] << 8) | b[o + 3]
    ver = (b[0] << 8) | b[1]
    cmd, a1, a2, a3 = be32(2), be32(6), be32(10), be32(14)
    payload = b[18:]
    # undo the documented word-wise byte swap (words sent big-endian)
    out = bytearray()
    for o in range(0, len(payload) - len(payload) % 4, 4):
        out += bytes((payload[o + 3], payload[o + 2], payload[o + 1],
                      payload[o]))
    tail = payload[len(payload) - len(payload) % 4:]
    return ver, cmd, a1, a2, a3, bytes(out), bytes(tail)


# -- sark.struct parser (independent of rig.machine_control.struct_file) ------

_PACK = {b"A": ("s", 1), b"c": ("b", 1), b"C": ("B", 1), b"v": ("H", 2),
         b"V": ("I", 4)}


class Field(object):
    __slots__ = ("name", "kind", "size", "offset", "default", "length",
                 "count")

    def __repr__(self):
        return "Field(%s,%s,%d@%#x)" % (self.name, self.kind, self.size,
                                        self.offset)


def _num(tok):
    tok = tok.decode()
    return int(tok, 16) if tok.lower().startswith("0x") else int(tok)


def parse_struct_file(data):
    """-> {name(str): {"size":, "base":, "fields": {name(str): Field}}}"""
    structs = {}
    cur = None
    for line in data.splitlines():
        line = line.split(b"#", 1)[0].strip()
        if not line:
            continue
        toks = line.split()
        if len(toks) == 3 and toks[1] == b"=":
            key, _, val = toks
            if key == b"name":
                cur = {"size": None, "base": None, "fields": {}}
                structs[val.decode()] = cur
            elif key == b"size":
                cur["size"] = _num(val)
            elif key == b"base":
                cur["base"] = _num(val)
        elif len(toks) == 5:
            name, pack, offset, _printf, default = toks
            f = Field()
            m = re.match(rb"^(\w)(\d+)$", pack)
            if m:
                ch, cnt = m.group(1), int(m.group(2))
            else:
                ch, cnt = pack, 1
            kind, unit = _PACK[ch]
            f.kind = kind
            f.count = cnt            # e.g. A16 -> 16 chars
            f.size = unit * cnt
            am = re.match(rb"^([\w.]+)\[(\d+)\]$", name)
            if am:
                f.name = am.group(1).decode()
                f.length = int(am.group(2))
            else:
                f.name = name.decode()
                f.length = 1
            f.offset = _num(offset)
            f.default = _num(default)
            cur["fields"][f.name] = f
    return structs


def pack_struct_defaults(struct, overrides=None):
    """Pack a struct's defaults (each field's default once at its offset,
    little-endian), with overrides applied."""
    overrides = overrides or {}
    buf = bytearray(struct["size"])
    for f in struct["fields"].values():
        v = overrides.get(f.name, f.default)
        if f.kind == "s":
            raw = (v if isinstance(v, bytes) else b"")[:f.size]
            raw = raw + b"\0" * (f.size - len(raw))
        else:
            unit = f.size // f.count
            if f.kind == "b" and v < 0:
                v += 1 << (8 * unit)
            raw = int(v).to_bytes(unit, "little")
        buf[f.offset:f.offset + len(raw)] = raw
    return bytes(buf)
