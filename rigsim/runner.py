"""Seeded search driver: fork pool, merge by seed order, shrink, replay file,
known-findings filter, evidence writer.

Exit codes: 0 property held on everything explored (KNOWN-FINDING lines may be
printed); 1 with ``VIOLATION property=<id> replay=<path>``; 2 harness error or
time-out (never 0).
"""
import argparse
import collections
import concurrent.futures
import faulthandler
import json
import signal
import multiprocessing
import os
import subprocess
import sys
import time
import traceback

from .core import (Tape, World, Violation, SimAbort, derive_seed,
                   match_known)

VERIF = os.path.dirname(os.path.dirname(os.path.abspath(__file__)))
REPO = os.environ.get("VERIF_REPO", "/repo")
PY = "/venv/bin/python"


# ---------------------------------------------------------------------------
# known findings
# ---------------------------------------------------------------------------

def load_known_findings():
    path = os.path.join(VERIF, "known_findings.json")
    try:
        with open(path) as f:
            return json.load(f).get("findings", [])
    except FileNotFoundError:
        return []


# ---------------------------------------------------------------------------
# one run
# ---------------------------------------------------------------------------

class RunOutcome(object):
    __slots__ = ("index", "seed", "digest", "abstract", "n_events",
                 "sim_seconds", "faults", "probes", "nontrivial", "violation",
                 "segments", "ops", "trace", "known_hits", "harness_error",
                 "ops_completed", "draws", "info")

    def as_dict(self):
        return {k: getattr(self, k) for k in self.__slots__}


def rig_frame_of(exc):
    """Innermost traceback frame: ('rig'|'harness'|'other', 'file:func:line')."""
    tb = exc.__traceback__
    last = None
    while tb is not None:
        last = tb
        tb = tb.tb_next
    if last is None:
        return "other", "?"
    fn = last.tb_frame.f_code.co_filename
    where = "%s:%s" % (os.path.relpath(fn, REPO) if fn.startswith(REPO)
                       else fn, last.tb_frame.f_code.co_name)
    if fn.startswith(REPO + "/"):
        return "rig", where
    if fn.startswith(VERIF + "/"):
        return "harness", where
    return "other", where


def innermost_rig_frame(exc):
    """Deepest frame that lies in /repo (where in rig the exception came
    through), or None."""
    tb = exc.__traceback__
    found = None
    while tb is not None:
        fn = tb.tb_frame.f_code.co_filename
        if fn.startswith(REPO + "/"):
            found = "%s:%s" % (os.path.relpath(fn, REPO),
                               tb.tb_frame.f_code.co_name)
        tb = tb.tb_next
    return found


RUN_WALL_LIMIT = {"quick": 60, "thorough": 240}


def is_wall(viol):
    return bool(viol) and (viol.get("signature") or {}).get("kind") == "WALL"


def raised_by(exc):
    """Who raised an exception that escaped an engine: walking from the
    innermost frame outwards, skipping library frames, the first frame that is
    rig's ('rig', where) or the harness's ('harness', where)."""
    frames = []
    tb = exc.__traceback__
    while tb is not None:
        frames.append(tb.tb_frame.f_code)
        tb = tb.tb_next
    for code in reversed(frames):
        fn = code.co_filename
        if fn.startswith(REPO + "/"):
            return "rig", "%s:%s" % (os.path.relpath(fn, REPO), code.co_name)
        if fn.startswith(VERIF + "/"):
            return "harness", "%s:%s" % (os.path.relpath(fn, VERIF),
                                         code.co_name)
    return "other", "?"


def execute(engine, prop, tier, tape, index=0, known=None, keep_trace=400):
    """Run the engine once on ``tape``.  Never raises for a violation."""
    world = World(tape, keep_trace=keep_trace)
    world.known_findings = known or []
    world.known_hits = []
    world.prop = prop
    out = RunOutcome()
    out.index = index
    out.seed = tape.seed
    out.harness_error = None
    out.info = None
    # wall-clock watchdog: a loop inside rig that never reaches a seam (so
    # that the simulator's own step budgets cannot stop it) is interrupted
    # and reported as non-termination instead of hanging the check
    limit = int(os.environ.get("VERIF_WALL_LIMIT", 0) or
                RUN_WALL_LIMIT.get(tier, 300))

    def _on_alarm(signum, frame):
        raise SimAbort("WALL", "still running after %d s of wall-clock "
                       "time" % limit)
    old_handler = None
    try:
        old_handler = signal.signal(signal.SIGALRM, _on_alarm)
        signal.setitimer(signal.ITIMER_REAL, limit)
    except (ValueError, AttributeError):     # not the main thread
        old_handler = None
    try:
        out.info = engine.run(world, tier, prop)
    except Violation as v:
        if world.violation is None:
            world.violation = v
    except SimAbort as a:
        if world.violation is None:
            world.violation = Violation(
                "TERMINATION", "run did not finish: %s" % (a,),
                {"kind": a.kind})
    except Exception as e:   # noqa
        who, where = raised_by(e)
        if who == "rig" and world.violation is None:
            # rig itself raised where the harness (which only makes calls
            # that are legal at that point) expected none: on the unchanged
            # tree this never happens
            world.note_violation(
                "E", "unexpected %s raised by rig (%s): %s"
                % (type(e).__name__, where, str(e)[:100]),
                kind="escaped-exception", exc=type(e).__name__,
                where=where.split(":")[-1])
        elif who != "rig":
            out.harness_error = "".join(traceback.format_exception(
                type(e), e, e.__traceback__))[-4000:]
    finally:
        if old_handler is not None:
            signal.setitimer(signal.ITIMER_REAL, 0)
            signal.signal(signal.SIGALRM, old_handler)
    v = world.violation
    out.violation = None if v is None else {
        "monitor": v.monitor, "message": v.message, "signature": v.signature}
    out.digest = world.trace.digest()
    out.abstract = world.trace.abstract_digest()
    out.n_events = world.trace.n
    out.sim_seconds = world.sim.now
    out.faults = dict(world.faults)
    out.probes = dict(world.probes)
    out.ops_completed = world.ops_completed
    out.nontrivial = bool(world.ops_completed > 0)
    out.segments = tape.segments
    out.ops = world.ops[:60]
    out.trace = world.trace.events
    out.known_hits = world.known_hits
    out.draws = tape.draws
    return out


def execute_isolated(engine, prop, tier, tape, index=0, known=None,
                     keep_trace=400, prelude=()):
    """Like execute(), but in a forked child: the run starts from the
    pristine process state (nothing of rig has been *called* in the parent),
    so state the code under test keeps between calls cannot leak from one run
    into the next and a replay in a fresh interpreter sees the same world.
    ``prelude``: run seeds executed first, in that child, their outcomes
    discarded (a violation that needs what earlier runs of its chunk left
    behind in the process is replayed as that sequence)."""
    import pickle
    r, wfd = os.pipe()
    pid = os.fork()
    if pid == 0:
        code = 0
        try:
            os.close(r)
            for ps in prelude:
                execute(engine, prop, tier, Tape(seed=int(ps)), 0, known, 10)
            o = execute(engine, prop, tier, tape, index, known, keep_trace)
            with os.fdopen(wfd, "wb") as f:
                f.write(pickle.dumps(o.as_dict()))
        except BaseException:
            code = 3
        finally:
            os._exit(code)
    os.close(wfd)
    with os.fdopen(r, "rb") as f:
        data = f.read()
    os.waitpid(pid, 0)
    out = RunOutcome()
    if not data:
        for k in RunOutcome.__slots__:
            setattr(out, k, None)
        out.index, out.seed = index, tape.seed
        out.harness_error = "isolated run died without a result"
        out.faults, out.probes, out.known_hits = {}, {}, []
        out.sim_seconds = 0.0
        out.n_events = out.draws = out.ops_completed = 0
        out.nontrivial = False
        return out
    for k, v in pickle.loads(data).items():
        setattr(out, k, v)
    return out


def run_engine(engine, *args, **kwargs):
    if getattr(engine, "ISOLATE", False):
        return execute_isolated(engine, *args, **kwargs)
    return execute(engine, *args, **kwargs)


def _chunk_worker(args):
    """One chunk of runs.  The pool's worker processes never execute the code
    under test themselves: an engine with ISOLATE forks a child per run, the
    others a child per chunk.  Whatever state a (changed) library keeps
    between calls is therefore confined to one chunk, whose runs execute in
    index order - the outcome of a batch does not depend on which worker got
    which chunk, and a violation that needs the earlier runs of its chunk is
    replayed with them as its prelude."""
    engine_name, prop, tier, verif_seed, indices, known, timeout = args
    from . import engines_registry
    engine = engines_registry.get(engine_name)
    if getattr(engine, "ISOLATE", False):
        return _chunk_body(args)
    import pickle
    r, wfd = os.pipe()
    pid = os.fork()
    if pid == 0:
        code = 0
        try:
            os.close(r)
            res = _chunk_body(args)
            with os.fdopen(wfd, "wb") as f:
                f.write(pickle.dumps(res))
        except BaseException:
            code = 3
        finally:
            os._exit(code)
    os.close(wfd)
    # (armed after the fork: a child must not inherit a watchdog whose thread
    # does not exist there)
    faulthandler.dump_traceback_later(timeout + 20, exit=True)
    with os.fdopen(r, "rb") as f:
        data = f.read()
    os.waitpid(pid, 0)
    faulthandler.cancel_dump_traceback_later()
    if not data:
        raise RuntimeError("the child running chunk %d..%d died without a "
                           "result" % (indices[0], indices[-1]))
    return pickle.loads(data)


def _chunk_body(args):
    engine_name, prop, tier, verif_seed, indices, known, timeout = args
    faulthandler.dump_traceback_later(timeout, exit=True)
    from . import engines_registry
    engine = engines_registry.get(engine_name)
    results = []
    for i in indices:
        seed = derive_seed(verif_seed, prop, i)
        o = run_engine(engine, prop, tier, Tape(seed=seed), index=i,
                       known=known, keep_trace=120)
        d = o.as_dict()
        if o.violation is None and o.harness_error is None:
            d["segments"] = None
            if i >= 3:
                d["trace"] = None
                d["ops"] = None
        results.append(d)
        if is_wall(d.get("violation")):
            # every further run of this kind would cost the full wall limit
            break
    faulthandler.cancel_dump_traceback_later()
    return results


# ---------------------------------------------------------------------------
# shrinking
# ---------------------------------------------------------------------------

def shrink(engine, prop, tier, segments, monitor, known, budget_s=60.0,
           max_runs=2000, prelude=()):
    """Candidates run in forked children of the (pristine) main process."""
    t0 = time.time()
    runs = [0]

    def fails(segs):
        if runs[0] >= max_runs or time.time() - t0 > budget_s:
            return None
        runs[0] += 1
        o = execute_isolated(engine, prop, tier, Tape(segments=segs),
                             known=known, prelude=prelude)
        if o.harness_error is None and o.violation is not None and \
                o.violation["monitor"] == monitor:
            return o
        return None

    def clone(t):
        return {"config": list(t["config"]),
                "ops": [list(s) for s in t["ops"]], "tail": list(t["tail"])}

    best = clone(segments)
    best_out = fails(best)
    if best_out is None:
        return segments, None, runs[0]
    best = clone(best_out.segments)

    def attempt(cand):
        nonlocal best, best_out
        o = fails(cand)
        if o is not None:
            best = clone(o.segments)
            best_out = o
            return True
        return False

    # 1. ddmin over operation segments
    n = 2
    while best["ops"]:
        ops = best["ops"]
        size = max(1, len(ops) // n)
        removed = False
        for start in range(0, len(ops), size):
            cand = clone(best)
            cand["ops"] = ops[:start] + ops[start + size:]
            if attempt(cand):
                removed = True
                break
        if removed:
            n = max(2, n - 1)
        else:
            if size == 1:
                break
            n = min(len(ops), n * 2)

    # 2. zero / halve individual choices (ops first, then tail, then config)
    def seg_list(t):
        return t["ops"] + [t["tail"], t["config"]]

    si = 0
    while si < len(seg_list(best)):
        j = 0
        while si < len(seg_list(best)) and j < len(seg_list(best)[si]):
            v = seg_list(best)[si][j]
            if v:
                for nv in (0, v // 2, v - 1):
                    if nv == v or nv < 0:
                        continue
                    cand = clone(best)
                    seg_list(cand)[si][j] = nv
                    if attempt(cand):
                        break
            j += 1
        si += 1
    # 3. truncate trailing zeros (reading past the end yields 0)
    for seg in seg_list(best):
        while seg and seg[-1] == 0:
            seg.pop()
    final = fails(best)
    if final is not None:
        best_out = final
        best = clone(final.segments)
        for seg in seg_list(best):
            while seg and seg[-1] == 0:
                seg.pop()
    return best, best_out, runs[0]


# ---------------------------------------------------------------------------
# evidence
# ---------------------------------------------------------------------------

def write_evidence(path, doc):
    os.makedirs(os.path.dirname(path), exist_ok=True)
    tmp = path + ".tmp%d" % os.getpid()
    with open(tmp, "w") as f:
        json.dump(doc, f, indent=1, sort_keys=True, default=str)
    os.replace(tmp, path)


def rig_commit():
    try:
        c = subprocess.run(["git", "-C", REPO, "rev-parse", "--short", "HEAD"],
                           capture_output=True, text=True,
                           timeout=20).stdout.strip()
        d = subprocess.run(["git", "-C", REPO, "status", "--porcelain",
                            "--untracked-files=no"], capture_output=True,
                           text=True, timeout=20).stdout.strip()
        return c, bool(d)
    except Exception:
        return "unknown", False


# ---------------------------------------------------------------------------
# main
# ---------------------------------------------------------------------------

def reexec_if_needed(argv):
    want = os.environ.get("VERIF_HASHSEED", "0")
    if os.environ.get("PYTHONHASHSEED") != want or \
            os.environ.get("PYTHONDONTWRITEBYTECODE") != "1":
        env = dict(os.environ)
        env["PYTHONHASHSEED"] = want
        env["PYTHONDONTWRITEBYTECODE"] = "1"
        os.execve(os.path.join(VERIF, "check"),
                  [os.path.join(VERIF, "check")] + list(argv), env)


def preflight(engine):
    """Fresh-interpreter import check of the rig modules the engine drives
    (a library that cannot be imported cannot do anything its properties
    promise).  Returns None or an error string."""
    mods = getattr(engine, "RIG_MODULES", [])
    if not mods:
        return None
    code = ("import sys, importlib\n"
            "sys.path.insert(0, %r)\n"
            "for m in %r:\n"
            "    importlib.import_module(m)\n" % (REPO, list(mods)))
    p = subprocess.run([PY, "-c", code], capture_output=True, text=True,
                       timeout=120, cwd="/",
                       env=dict(os.environ, PYTHONDONTWRITEBYTECODE="1"))
    if p.returncode != 0:
        return (p.stderr.strip().splitlines() or ["import failed"])[-1]
    return None


def main(argv=None):
    argv = sys.argv[1:] if argv is None else argv
    reexec_if_needed(argv)
    ap = argparse.ArgumentParser()
    ap.add_argument("prop")
    ap.add_argument("--tier", default=os.environ.get("VERIF_TIER", "quick"),
                    choices=["quick", "thorough"])
    ap.add_argument("--seed", type=int,
                    default=int(os.environ.get("VERIF_SEED", "0") or 0))
    ap.add_argument("--runs", type=int, default=None)
    ap.add_argument("--workers", type=int,
                    default=int(os.environ.get("VERIF_WORKERS", "0") or 0))
    ap.add_argument("--replay", default=None)
    ap.add_argument("--digests", default=None,
                    help="write index->digest JSON here (determinism tests)")
    ap.add_argument("--no-evidence", action="store_true")
    ap.add_argument("--budget", type=float, default=None,
                    help="wall-clock budget in seconds")
    args = ap.parse_args(argv)

    sys.path.insert(0, REPO)
    from . import engines_registry
    prop = args.prop
    engine_name = engines_registry.PROPERTY_ENGINE.get(prop)
    if engine_name is None:
        print("unknown or not-applicable property %s" % prop)
        return 2
    engine = engines_registry.get(engine_name)
    known = load_known_findings()

    if args.replay:
        return replay(engine, prop, args.replay, known)

    t0 = time.time()
    tier = args.tier
    plan = engine.plan(tier, prop)
    n_runs = args.runs if args.runs is not None else plan["runs"]
    budget = args.budget if args.budget is not None else plan["budget_s"]
    workers = args.workers or min(16, os.cpu_count() or 1)
    chunk = plan.get("chunk", 25)

    evidence_path = os.path.join(VERIF, "evidence", prop + ".json")
    print("check %s engine=%s tier=%s VERIF_SEED=%d runs=%d workers=%d"
          % (prop, engine_name, tier, args.seed, n_runs, workers))
    sys.stdout.flush()

    # -- preflight: can the code under test be imported at all? ------------
    err = preflight(engine)
    if err is not None:
        sig = {"where": "import", "error": err.split(":")[0]}
        viol = {"monitor": "IMPORT", "message":
                "rig modules needed for this property cannot be imported in "
                "a fresh interpreter: " + err, "signature": sig}
        k = match_known(known, prop, "IMPORT", sig)
        rp = os.path.join(VERIF, "replays", "%s-import.json" % prop)
        write_evidence(rp, {"property": prop, "engine": engine_name,
                            "kind": "preflight-import", "violation": viol,
                            "modules": list(engine.RIG_MODULES),
                            "rig_commit": rig_commit()[0]})
        if k is not None:
            print("KNOWN-FINDING: property=%s %s" % (prop, k.get("what")))
            return 0
        print("VIOLATION property=%s replay=%s" % (prop, rp))
        print("  monitor=IMPORT %s" % viol["message"])
        return 1

    # import (never call) the code under test once, before forking
    from .seams import rig_module
    for mname in getattr(engine, "RIG_MODULES", []):
        rig_module(mname)

    indices = list(range(n_runs))
    chunks = [indices[i:i + chunk] for i in range(0, len(indices), chunk)]
    results = {}
    truncated = False
    harness_errors = []
    ctx = multiprocessing.get_context("fork")
    per_chunk_timeout = plan.get("chunk_timeout_s", 600)
    with concurrent.futures.ProcessPoolExecutor(
            max_workers=workers, mp_context=ctx) as pool:
        futs = {}
        pending_chunks = collections.deque(chunks)
        # keep the queue short so that the wall budget can stop early
        while pending_chunks or futs:
            while pending_chunks and len(futs) < workers * 2:
                if time.time() - t0 > budget:
                    truncated = True
                    pending_chunks.clear()
                    break
                c = pending_chunks.popleft()
                f = pool.submit(_chunk_worker, (engine_name, prop, tier,
                                                args.seed, c, known,
                                                per_chunk_timeout))
                futs[f] = c
            if not futs:
                break
            done, _ = concurrent.futures.wait(
                list(futs), timeout=per_chunk_timeout + 30,
                return_when=concurrent.futures.FIRST_COMPLETED)
            if not done:
                print("HARNESS-TIMEOUT: no worker finished in %d s"
                      % (per_chunk_timeout + 30))
                os._exit(2)
            for f in done:
                futs.pop(f)
                try:
                    for d in f.result():
                        results[d["index"]] = d
                        if is_wall(d.get("violation")):
                            # a hang was found: finish what is in flight
                            pending_chunks.clear()
                            truncated = True
                except Exception as e:  # worker died / timed out
                    missing = [i for i in indices if i not in results]
                    rc = hunt_crash(engine, engine_name, prop, tier,
                                    args.seed, missing, known, repr(e))
                    sys.stdout.flush()
                    os._exit(rc)

    ordered = [results[i] for i in sorted(results)]
    if args.digests:
        with open(args.digests, "w") as f:
            json.dump({str(d["index"]): d["digest"] for d in ordered}, f)

    harness_errors = [d for d in ordered if d["harness_error"]]
    if harness_errors:
        d = harness_errors[0]
        print("HARNESS-ERROR in run index=%d seed=%s:\n%s"
              % (d["index"], d["seed"], d["harness_error"]))
        return 2

    # -- violations ----------------------------------------------------------
    violations = [d for d in ordered if d["violation"]]
    known_lines = collections.OrderedDict()
    # every listed (unrepaired) finding of this property gets its line, hit in
    # this batch or not
    for k in known:
        if k.get("property") == prop and k.get("status") == "known":
            known_lines[k.get("what")] = 0
    for d in ordered:
        for kh in d["known_hits"] or []:
            known_lines.setdefault(kh, 0)
            known_lines[kh] += 1
    exit_code = 0
    replay_paths = []
    reported = 0
    if violations:
        # group by monitor; report (and shrink) the first of each group
        seen_monitors = set()
        for d in violations:
            mon = d["violation"]["monitor"]
            if mon in seen_monitors:
                continue
            seen_monitors.add(mon)
            if reported >= 3:
                break
            if is_wall(d["violation"]):
                # (every shrinking attempt would hang for the wall limit)
                segs, out, nshrink = d["segments"], None, 0
            else:
                segs, out, nshrink = shrink(
                    engine, prop, tier, d["segments"], mon, known,
                    budget_s=plan.get("shrink_s", 60))
            prelude = []
            if out is None and not is_wall(d["violation"]):
                # not reproducible on its own: it needs state that earlier
                # runs of its chunk left behind in the process.  Replay it
                # with those runs as prelude, dropping the ones not needed.
                ch = next(c for c in chunks if d["index"] in c)
                prelude = [str(derive_seed(args.seed, prop, j))
                           for j in ch if j < d["index"]]

                def with_prelude(pre):
                    o = execute_isolated(engine, prop, tier,
                                         Tape(segments=d["segments"]),
                                         known=known, prelude=pre)
                    return o if (o.harness_error is None and o.violation and
                                 o.violation["monitor"] == mon) else None
                out = with_prelude(prelude) if prelude else None
                if out is None:
                    prelude = []
                else:
                    t1 = time.time()
                    i = 0
                    while i < len(prelude) and time.time() - t1 < 60:
                        cand = prelude[:i] + prelude[i + 1:]
                        o = with_prelude(cand)
                        if o is not None:
                            prelude, out = cand, o
                        else:
                            i += 1
                    segs, out2, n2 = shrink(
                        engine, prop, tier, d["segments"], mon, known,
                        budget_s=plan.get("shrink_s", 60), prelude=prelude)
                    nshrink += n2
                    if out2 is not None:
                        out = out2
                    else:
                        segs = d["segments"]
            if out is None:
                # could not reproduce in a fresh process: still report,
                # unshrunk
                out_d = d
                segs = d["segments"]
                reproduced = False
            else:
                out_d = out.as_dict()
                reproduced = True
            commit, dirty = rig_commit()
            rp = os.path.join(VERIF, "replays", "%s-%s-%s.json"
                              % (prop, mon.replace(":", "_").replace("/", "_")
                                 [:40], d["seed"]))
            write_evidence(rp, {
                "property": prop, "engine": engine_name, "tier": tier,
                "verif_seed": args.seed, "run_index": d["index"],
                "run_seed": d["seed"], "rig_commit": commit,
                "rig_dirty": dirty, "python": sys.version.split()[0],
                "PYTHONHASHSEED": os.environ.get("PYTHONHASHSEED"),
                "tape": segs, "violation": out_d["violation"],
                "digest": out_d["digest"], "ops": out_d["ops"],
                "trace": out_d["trace"], "shrink_runs": nshrink,
                "reproduced_in_process": reproduced,
                "prelude_seeds": prelude,
                "original_tape_ops": len(d["segments"]["ops"]),
            })
            replay_paths.append(rp)
            print("VIOLATION property=%s replay=%s" % (prop, rp))
            print("  monitor=%s %s" % (mon, out_d["violation"]["message"]))
            print("  run_seed=%s ops=%d (from %d) shrink_runs=%d%s"
                  % (d["seed"], len(segs["ops"]), len(d["segments"]["ops"]),
                     nshrink, " prelude=%d earlier runs of its chunk"
                     % len(prelude) if prelude else ""))
            reported += 1
            exit_code = 1
    for line, cnt in known_lines.items():
        print("KNOWN-FINDING: property=%s %s (hit in %d runs)"
              % (prop, line, cnt))

    # -- evidence ------------------------------------------------------------
    wall = time.time() - t0
    faults = collections.Counter()
    probes = collections.Counter()
    for d in ordered:
        faults.update(d["faults"])
        probes.update(d["probes"])
    nontrivial = [d for d in ordered if d["nontrivial"]]
    distinct = len({d["abstract"] for d in nontrivial})
    sim_seconds = sum(d["sim_seconds"] for d in ordered)
    samples = []
    for d in ordered[:3]:
        if d["ops"] is not None:
            samples.append({"run_index": d["index"], "run_seed": d["seed"],
                            "ops": d["ops"][:40],
                            "trace_head": (d["trace"] or [])[:60],
                            "faults": d["faults"], "info": d["info"]})
    zero_probes = [p for p in plan.get("expected_probes", [])
                   if probes.get(p, 0) == 0]
    doc = {
        "property_id": prop, "tier": tier, "seed": args.seed,
        "level": "exploration",
        "coverage": {
            "evaluations": len(ordered),
            "distinct_nontrivial": distinct,
            "rule": plan["rule"],
            "samples": samples,
            "runs_per_hour": int(len(ordered) / max(wall, 1e-6) * 3600),
            "simulated_seconds": round(sim_seconds, 3),
            "events": sum(d["n_events"] for d in ordered),
            "tape_draws": sum(d["draws"] for d in ordered),
            "ops_completed": sum(d["ops_completed"] for d in ordered),
            "faults_fired": dict(sorted(faults.items())),
            "probes": dict(sorted(probes.items())),
            "probes_stuck_at_zero": zero_probes,
            "components_real": engine.COMPONENTS_REAL,
            "components_stub": engine.COMPONENTS_STUB,
            "knob_ranges": plan.get("knob_ranges", {}),
            "budget_truncated": truncated,
            "planned_runs": n_runs,
            "workers": workers,
            "known_findings": list(known_lines),
            "replays": replay_paths,
            "rig_commit": rig_commit()[0],
        },
        "assumptions": plan.get("assumptions", []),
        "wall_s": round(wall, 2),
        "violations": len(violations),
    }
    if not args.no_evidence:
        write_evidence(evidence_path, doc)
    print("%s: runs=%d distinct_nontrivial=%d violations=%d faults=%s "
          "wall=%.1fs%s" % (prop, len(ordered), distinct, len(violations),
                            dict(faults), wall,
                            " (budget-truncated)" if truncated else ""))
    for p in zero_probes:
        print("WARNING: probe %s stuck at zero" % p)
    if not ordered:
        print("HARNESS-ERROR: no runs executed")
        return 2
    return exit_code


def hunt_crash(engine, engine_name, prop, tier, verif_seed, indices, known,
               why, budget_s=150.0):
    """A worker process died.  Re-run the runs that have no result one at a
    time in forked children until one of them kills its child: that run is
    the violation (the interpreter died inside the code under test).  If none
    does within the budget it stays a harness error."""
    t0 = time.time()
    for i in indices:
        if time.time() - t0 > budget_s:
            break
        seed = derive_seed(verif_seed, prop, i)
        o = execute_isolated(engine, prop, tier, Tape(seed=seed), index=i,
                             known=known, keep_trace=120)
        if o.harness_error == "isolated run died without a result":
            rp = os.path.join(VERIF, "replays", "%s-CRASH-%s.json"
                              % (prop, seed))
            viol = {"monitor": "CRASH", "message":
                    "the interpreter died (no exception, no result) while "
                    "run %d was executing the code under test" % i,
                    "signature": {"kind": "process-died"}}
            write_evidence(rp, {"property": prop, "engine": engine_name,
                                "kind": "crash", "tier": tier,
                                "run_seed": str(seed), "run_index": i,
                                "verif_seed": verif_seed, "violation": viol,
                                "rig_commit": rig_commit()[0]})
            print("VIOLATION property=%s replay=%s" % (prop, rp))
            print("  monitor=CRASH %s" % viol["message"])
            return 1
    print("HARNESS-ERROR: worker failed: %s" % why)
    return 2


def replay(engine, prop, path, known):
    with open(path) as f:
        doc = json.load(f)
    if doc.get("kind") == "crash":
        from .seams import rig_module
        for mname in getattr(engine, "RIG_MODULES", []):
            rig_module(mname)
        o = execute_isolated(engine, prop, doc.get("tier", "quick"),
                             Tape(seed=int(doc["run_seed"])), known=[])
        if o.harness_error == "isolated run died without a result":
            print("VIOLATION property=%s replay=%s" % (prop, path))
            print("  monitor=CRASH the interpreter died again "
                  "REPRODUCED-EXACTLY")
            return 1
        print("REPLAY: the run completed (recorded: CRASH)")
        return 0
    if doc.get("kind") == "preflight-import":
        err = preflight(engine)
        if err is None:
            print("REPLAY: import now succeeds (violation not reproduced)")
            return 0
        print("VIOLATION property=%s replay=%s" % (prop, path))
        print("  monitor=IMPORT %s" % err)
        return 1
    from .seams import rig_module
    for mname in getattr(engine, "RIG_MODULES", []):
        rig_module(mname)
    o = execute_isolated(engine, prop, doc.get("tier", "quick"),
                         Tape(segments=doc["tape"]), known=[],
                         prelude=doc.get("prelude_seeds") or ())
    if o.harness_error:
        print("HARNESS-ERROR during replay:\n" + o.harness_error)
        return 2
    for line in o.ops:
        print("  op:", line)
    if o.violation is None:
        print("REPLAY: no violation (recorded: %s)"
              % doc["violation"]["monitor"])
        return 0
    same = (o.violation["monitor"] == doc["violation"]["monitor"] and
            o.digest == doc["digest"])
    print("VIOLATION property=%s replay=%s" % (prop, path))
    print("  monitor=%s %s" % (o.violation["monitor"],
                               o.violation["message"]))
    print("  digest=%s recorded=%s %s" % (
        o.digest, doc["digest"], "REPRODUCED-EXACTLY" if same else
        "REPLAY-DIVERGED"))
    if not same and o.violation["monitor"] != doc["violation"]["monitor"]:
        return 2
    return 1
