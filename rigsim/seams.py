"""Install / restore the simulator's objects at rig's existing seams.

Every seam is a module-level name rig already reads (``socket``, ``select``,
``time``, ``random``, ``open``) - no source hook in /repo is needed.
"""
import importlib
import os
import sys

RIG_ROOT = os.environ.get("VERIF_REPO", "/repo")


def ensure_rig_path():
    if sys.path[0] != RIG_ROOT:
        if RIG_ROOT in sys.path:
            sys.path.remove(RIG_ROOT)
        sys.path.insert(0, RIG_ROOT)


def rig_module(name):
    """importlib-based access (``rig.place_and_route.route`` the package is
    shadowed by the function of the same name, so attribute access fails)."""
    ensure_rig_path()
    mod = importlib.import_module(name)
    f = getattr(mod, "__file__", "") or ""
    assert f.startswith(RIG_ROOT + "/"), \
        "rig module %s loaded from %s, not %s" % (name, f, RIG_ROOT)
    return mod


class Seams(object):
    def __init__(self):
        self._saved = []

    def set(self, module_name, attr, value):
        mod = rig_module(module_name)
        missing = object()
        old = mod.__dict__.get(attr, missing)
        self._saved.append((mod, attr, old, missing))
        setattr(mod, attr, value)

    def restore(self):
        while self._saved:
            mod, attr, old, missing = self._saved.pop()
            if old is missing:
                try:
                    delattr(mod, attr)
                except AttributeError:
                    pass
            else:
                setattr(mod, attr, old)

    def __enter__(self):
        return self

    def __exit__(self, *exc):
        self.restore()
        return False


def install_net(seams, net, boot=True, bmp=True):
    """Route all of rig.machine_control's I/O and time through ``net``."""
    from .net import SimSocketModule, SimSelectModule, SimTimeModule
    sock, sel, tim = (SimSocketModule(net), SimSelectModule(net),
                      SimTimeModule(net))
    seams.set("rig.machine_control.scp_connection", "socket", sock)
    seams.set("rig.machine_control.scp_connection", "select", sel)
    seams.set("rig.machine_control.scp_connection", "time", tim)
    seams.set("rig.machine_control.machine_controller", "socket", sock)
    seams.set("rig.machine_control.machine_controller", "time", tim)
    if boot:
        seams.set("rig.machine_control.boot", "socket", sock)
        seams.set("rig.machine_control.boot", "time", tim)
    if bmp:
        seams.set("rig.machine_control.bmp_controller", "time", tim)
    return sock, sel, tim
