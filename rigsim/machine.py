"""Simulated SpiNNaker machine: the peer and reference model.

Written from the documented protocol (rig docstrings, consts.py comments,
sark.struct) with its own wire codec (wire.py) - it never imports rig.

State lives in the model; memory-mapped views of it (sv, vcpu blocks, router
copy, P2P table, diagnostics, IOBUF chains) are kept consistent in the chips'
byte memories, so that "the bytes really are at that address" is decided by
state.  Every command is validated on arrival; a protocol violation by rig is
recorded as a monitor failure *and* answered the way hardware would.
"""
import os

from . import wire
from .wire import u32, p32, p16

PAGE = 256
SV_BASE = 0xf5007f00
VCPU_BASE = 0xf5007000
VCPU_SIZE = 128
P2P_TABLE = 0xe1010000
RTR_DIAG = 0xe1000300
RTR_COPY = 0x67810000
ALLOC_TAG = 0x67820000
SDRAM_SYS = 0x67800000
IOBUF_AREA = 0x67900000
N_RTR = 1024

# link index -> (dx, dy)
LINK_VEC = [(1, 0), (1, 1), (0, 1), (-1, 0), (-1, -1), (0, -1)]

RC_OK = 0x80
RC_LEN, RC_SUM, RC_CMD, RC_ARG, RC_PORT, RC_TIMEOUT, RC_ROUTE, RC_CPU = \
    0x81, 0x82, 0x83, 0x84, 0x85, 0x86, 0x87, 0x88
RC_P2P_NOREPLY, RC_P2P_BUSY, RC_P2P_TIMEOUT = 0x8b, 0x8d, 0x8e
# every fatal code of the protocol (benign-first for shrinking)
FATAL_RCS = (RC_TIMEOUT, RC_P2P_NOREPLY, RC_ARG, RC_P2P_TIMEOUT, RC_ROUTE,
             RC_CPU, 0x89, 0x8a, 0x8c, 0x8f, RC_LEN, RC_CMD, RC_PORT)

ST_DEAD, ST_PWRDN, ST_RTE, ST_WDOG, ST_INIT, ST_WAIT, ST_CMAIN, ST_RUN, \
    ST_SYNC0, ST_SYNC1, ST_PAUSE, ST_EXIT = 0, 1, 2, 3, 4, 5, 6, 7, 8, 9, 10, 11
ST_IDLE = 15

SIG_INIT, SIG_PWRDN, SIG_STOP, SIG_START, SIG_SYNC0, SIG_SYNC1, SIG_PAUSE, \
    SIG_CONT, SIG_EXIT, SIG_TIMER = range(10)

_struct_cache = {}


def sark_structs(path=None):
    path = path or os.path.join(os.environ.get("VERIF_REPO", "/repo"),
                                "rig", "boot", "sark.struct")
    if path not in _struct_cache:
        with open(path, "rb") as f:
            _struct_cache[path] = wire.parse_struct_file(f.read())
    return _struct_cache[path]


def _junk_page(space, base):
    """Deterministic non-zero background pattern so that reads of the wrong
    address return recognisably wrong bytes."""
    k = (base >> 8) * 2654435761 + (0 if space is None else (space + 1) * 97)
    return bytearray(((k >> (i & 15)) + i * 7) & 0xff for i in range(PAGE))


class Memory(object):
    """Sparse byte memory.  ``space`` distinguishes a core's private
    (TCM) address range from the shared one."""

    def __init__(self):
        self.pages = {}

    @staticmethod
    def space_of(addr, p):
        return p if addr < 0x01000000 else None

    def _page(self, space, base):
        key = (space, base)
        pg = self.pages.get(key)
        if pg is None:
            pg = self.pages[key] = _junk_page(space, base)
        return pg

    def read(self, addr, n, p=0):
        out = bytearray()
        while n > 0:
            a = addr & 0xffffffff
            base = a & ~(PAGE - 1)
            off = a - base
            take = min(n, PAGE - off)
            out += self._page(self.space_of(a, p), base)[off:off + take]
            addr += take
            n -= take
        return bytes(out)

    def write(self, addr, data, p=0):
        i = 0
        n = len(data)
        while i < n:
            a = (addr + i) & 0xffffffff
            base = a & ~(PAGE - 1)
            off = a - base
            take = min(n - i, PAGE - off)
            self._page(self.space_of(a, p), base)[off:off + take] = \
                data[i:i + take]
            i += take

    def w32(self, addr, v):
        self.write(addr, p32(v))

    def r32(self, addr):
        return u32(self.read(addr, 4), 0)

    def diff(self, other, limit=5):
        """Differences between two memories (over pages either has)."""
        out = []
        for key in sorted(set(self.pages) | set(other.pages),
                          key=lambda k: (-1 if k[0] is None else k[0], k[1])):
            a = self.pages.get(key) or _junk_page(*key)
            b = other.pages.get(key) or _junk_page(*key)
            if a != b:
                for i in range(PAGE):
                    if a[i] != b[i]:
                        out.append((key[0], key[1] + i, a[i], b[i]))
                        if len(out) >= limit:
                            return out
        return out


class Heap(object):
    """First-fit allocator with tags and application ownership."""

    def __init__(self, base, size):
        self.base = base
        self.size = size
        self.blocks = []     # sorted list of [addr, size, app, tag]

    def largest_free(self):
        best = 0
        cur = self.base
        for b in self.blocks:
            best = max(best, b[0] - cur)
            cur = b[0] + b[1]
        best = max(best, self.base + self.size - cur)
        return max(0, best - 8) & ~3

    def alloc(self, size, app, tag):
        need = ((size + 3) & ~3) + 8
        cur = self.base
        idx = 0
        for idx, b in enumerate(self.blocks):
            if b[0] - cur >= need:
                break
            cur = b[0] + b[1]
        else:
            idx = len(self.blocks)
            if self.base + self.size - cur < need:
                return 0
        self.blocks.insert(idx, [cur, need, app, tag])
        return cur + 8

    def find(self, ptr):
        for b in self.blocks:
            if b[0] + 8 == ptr:
                return b
        return None

    def free_ptr(self, ptr):
        b = self.find(ptr)
        if b is None:
            return False
        self.blocks.remove(b)
        return True

    def free_app(self, app):
        gone = [b for b in self.blocks if b[2] == app]
        self.blocks = [b for b in self.blocks if b[2] != app]
        return gone


class Core(object):
    __slots__ = ("state", "app_id", "image", "name", "loads", "iobuf",
                 "user", "load_id")

    def __init__(self, state=ST_IDLE):
        self.state = state
        self.app_id = 0
        self.image = None
        self.name = ""
        self.loads = 0
        self.iobuf = b""
        self.user = [0, 0, 0, 0]
        self.load_id = None


class RouterEntry(object):
    __slots__ = ("key", "mask", "route", "app", "core")

    def __init__(self, key, mask, route, app, core=0):
        self.key, self.mask, self.route, self.app, self.core = \
            key, mask, route, app, core


class Chip(object):
    def __init__(self, machine, x, y, n_cores=18):
        self.m = machine
        self.x, self.y = x, y
        self.dead = False            # absent from P2P tables
        self.unresponsive = None     # None | "silent" | "p2p_timeout"
        self.mem = Memory()
        self.cores = [Core() for _ in range(n_cores)]
        self.cores[0].state = ST_RUN
        self.cores[0].name = "SC&MP"
        self.links_up = set(range(6))      # outgoing direction works
        self.sdram = Heap(0x60000000 + 0x400, 1 << 20)
        self.sysram = Heap(0xe5000100, 0x6000)
        self.router = [None] * N_RTR
        self.rtr_blocks = []               # [first, count, app]
        # SC&MP keeps entry 0 (an allocation result of 0 means failure); a
        # chip may nevertheless *report* all 1024 entries free
        self.rtr_entry0_reserved = True
        self.iptags = {}
        self.tags = {}                     # (app, tag) -> pointer
        self.leds = {}
        self.ip = None                     # Ethernet: "a.b.c.d"
        self.eth_up = False
        self.local_eth = (0, 0)
        self.ff = None                     # flood-fill reception state
        self.diag = [0] * 16
        self.arrivals = []                 # (endpoint ip, parsed request)
        self.busy_until = None             # transient-busy window end
        # where this chip's SC&MP put the per-core blocks and the router copy
        # (allocated at boot: need not be the same on every chip)
        self.vcpu_base = VCPU_BASE
        self.rtr_copy = RTR_COPY
        self.synced = False                # sv/vcpu/diag materialised
        self.p2p_synced = False
        self.rtr_synced = False

    # -- memory-mapped state -------------------------------------------------
    def sv_write(self, field, value):
        f = self.m.sv_fields[field]
        unit = f.size // f.count
        self.mem.write(SV_BASE + f.offset, int(value).to_bytes(unit, "little"))

    def sync_sv(self):
        m = self.m
        self.sv_write("p2p_addr", (self.x << 8) | self.y)
        self.sv_write("p2p_dims", (m.width << 8) | m.height)
        self.sv_write("eth_addr", (self.local_eth[0] << 8) | self.local_eth[1])
        self.sv_write("eth_up", 1 if self.eth_up else 0)
        self.sv_write("num_cpus", len(self.cores))
        self.sv_write("sdram_base", self.sdram.base)
        self.sv_write("sysram_base", self.sysram.base)
        self.sv_write("sdram_sys", m.sdram_sys)
        self.sv_write("vcpu_base", self.vcpu_base)
        self.sv_write("rtr_copy", self.rtr_copy)
        self.sv_write("alloc_tag", ALLOC_TAG)
        self.sv_write("iobuf_size", m.iobuf_size)
        self.sv_write("p2p_root", (m.root[0] << 8) | m.root[1])
        self.sv_write("p2p_up", 1)
        if self.ip:
            a = [int(q) for q in self.ip.split(".")]
            self.sv_write("ip_addr", a[0] | a[1] << 8 | a[2] << 16 | a[3] << 24)

    def sync_vcpu(self, p):
        if not self.synced:
            return
        c = self.cores[p]
        base = self.vcpu_base + VCPU_SIZE * p
        vf = self.m.vcpu_fields
        blk = bytearray(VCPU_SIZE)
        blk[vf["phys_cpu"].offset] = (p * 5 + 1) % 18
        blk[vf["cpu_state"].offset] = c.state
        blk[vf["app_id"].offset] = c.app_id & 0xff
        nm = c.name.encode()[:16]
        blk[vf["app_name"].offset:vf["app_name"].offset + len(nm)] = nm
        blk[vf["sw_ver"].offset:vf["sw_ver"].offset + 4] = p32(0x010203)
        blk[vf["time"].offset:vf["time"].offset + 4] = p32(1000 + c.loads)
        for i in range(4):
            o = vf["user%d" % i].offset
            blk[o:o + 4] = p32(c.user[i])
        # IOBUF chain
        head = 0
        if c.iobuf:
            head = self._write_iobuf_chain(p, c.iobuf)
        blk[vf["iobuf"].offset:vf["iobuf"].offset + 4] = p32(head)
        self.mem.write(base, bytes(blk))

    def _write_iobuf_chain(self, p, text):
        size = self.m.iobuf_size
        chunks = [text[i:i + size] for i in range(0, len(text), size)]
        addr0 = IOBUF_AREA + p * 0x10000
        addrs = [addr0 + i * (size + 16 + 12) for i in range(len(chunks))]
        for i, ch in enumerate(chunks):
            nxt = addrs[i + 1] if i + 1 < len(chunks) else 0
            # header: next, time, ms, length; then the text, the rest of the
            # buffer is whatever was there before (junk)
            self.mem.write(addrs[i], p32(nxt) + p32(77 + i) + p32(i) +
                           p32(len(ch)) + ch)
        return addrs[0]

    def sync_router_entry(self, i):
        if not self.rtr_synced:
            return
        e = self.router[i]
        if e is None:
            rec = p16(i) + p16(0) + p32(0xff000000) + p32(0) + p32(0)
        else:
            rec = (p16(i) + p16((e.app & 0xff) | ((e.core & 0xf) << 8)) +
                   p32(e.route) + p32(e.key) + p32(e.mask))
        self.mem.write(self.rtr_copy + 16 * i, rec)

    def materialise(self, addr=None, n=0):
        """Bring the memory-mapped views of the model state into the byte
        memory (lazily: big machines never pay for chips nobody reads)."""
        if not self.synced:
            self.synced = True
            self.sync_sv()
            for p in range(len(self.cores)):
                self.sync_vcpu(p)
            self.mem.write(RTR_DIAG, b"".join(p32(v) for v in self.diag))
        if addr is None:
            return
        end = addr + n
        if not self.rtr_synced and addr < self.rtr_copy + 16 * N_RTR and \
                end > self.rtr_copy:
            self.rtr_synced = True
            for i in range(N_RTR):
                self.sync_router_entry(i)
        if not self.p2p_synced and addr < P2P_TABLE + 0x2000 * 4 and \
                end > P2P_TABLE:
            self.p2p_synced = True
            self.sync_p2p()

    def sync_all(self):
        self.materialise(self.rtr_copy, 1)
        self.materialise(P2P_TABLE, 1)

    def sync_p2p(self):
        m = self.m
        for col in range(m.width):
            for row0 in range(0, m.height, 8):
                word = 0
                for e in range(8):
                    y = row0 + e
                    ch = m.chips.get((col, y))
                    if y >= m.height or ch is None or ch.dead:
                        v = 6
                    elif ch is self:
                        v = 7
                    else:
                        v = (col * 3 + y) % 6
                    word |= v << (3 * e)
                self.mem.w32(P2P_TABLE + ((256 * col) // 8 + row0 // 8) * 4,
                             word)

    # -- router allocator ----------------------------------------------------
    def rtr_largest_free(self):
        best = 0
        run = 0
        used = self._rtr_used()
        for i in range(0, N_RTR):
            if used[i]:
                run = 0
            else:
                run += 1
                best = max(best, run)
        return best

    def _rtr_used(self):
        used = [False] * N_RTR
        used[0] = self.rtr_entry0_reserved
        for first, count, _app in self.rtr_blocks:
            for i in range(first, first + count):
                used[i] = True
        return used

    def rtr_alloc(self, count, app):
        if count <= 0:
            return 0
        used = self._rtr_used()
        run = 0
        for i in range(1, N_RTR):
            if used[i]:
                run = 0
            else:
                run += 1
                if run == count:
                    first = i - count + 1
                    self.rtr_blocks.append([first, count, app])
                    return first
        return 0

    def rtr_free_app(self, app, clear=True):
        for first, count, a in list(self.rtr_blocks):
            if a == app:
                self.rtr_blocks.remove([first, count, a])
                for i in range(first, first + count):
                    if clear and self.router[i] is not None:
                        self.router[i] = None
                        self.sync_router_entry(i)

    def working_links(self):
        out = set()
        for l in self.links_up:
            n = self.m.neighbour(self.x, self.y, l)
            if n is not None and not n.dead:
                out.add(l)
        return out

    def core_snapshot(self):
        return [(c.state, c.app_id, c.image, c.loads) for c in self.cores]


class SimMachine(object):
    """The whole machine + its SCP endpoints."""

    def __init__(self, world, net, width=2, height=2, torus=False,
                 buffer_size=256, n_cores=18, root=(0, 0),
                 version=(1, 33), semver=None, iobuf_size=16384,
                 eth_chips=None, ip_base="10.0.0."):
        self.w = world
        self.net = net
        self.tape = world.tape
        self.width, self.height, self.torus = width, height, torus
        self.buffer_size = buffer_size
        self.root = root
        self.version = version
        self.semver = semver
        self.iobuf_size = iobuf_size
        self.sdram_sys = SDRAM_SYS
        st = sark_structs()
        self.sv_fields = st["sv"]["fields"]
        self.vcpu_fields = st["vcpu"]["fields"]
        self.chips = {}
        for x in range(width):
            for y in range(height):
                self.chips[(x, y)] = Chip(self, x, y, n_cores)
        self.booted = True
        self.p2p_unknown_until = -1.0
        self.commands = 0
        self.validate = True
        self.strict_access = True
        self.on_command = None      # hook(chip, req, endpoint_ip)
        self.swallow = None         # hook(chip, req) -> bool: request is lost
        self.machine_faults = True
        self.ff_miss = None         # hook(chip, kind) -> bool (chip misses it)
        self.app_start_latency = 0.0
        self.endpoints = {}
        self.signals_seen = []
        self.ff_log = []
        self.ff_bad_cores = []
        self.alloc_fail_hook = None
        self.on_count = None        # hook(app, state, count) on a count query
        eth = eth_chips if eth_chips is not None else [root]
        for i, xy in enumerate(eth):
            ch = self.chips[xy]
            ch.ip = "%s%d" % (ip_base, i + 1)
            ch.eth_up = True
        for ch in self.chips.values():
            ch.local_eth = self.root

    # -- topology ------------------------------------------------------------
    def neighbour(self, x, y, link):
        dx, dy = LINK_VEC[link]
        nx, ny = x + dx, y + dy
        if self.torus:
            nx %= self.width
            ny %= self.height
        elif not (0 <= nx < self.width and 0 <= ny < self.height):
            return None
        return self.chips.get((nx, ny))

    def live_chips(self):
        return [c for c in self.chips.values() if not c.dead]

    def vary_layout(self):
        """Give every chip its own addresses for the per-core blocks and the
        router copy (call before anything has been read)."""
        for (x, y), ch in self.chips.items():
            ch.vcpu_base = VCPU_BASE + VCPU_SIZE * ((x * 3 + y * 7) % 11)
            ch.rtr_copy = RTR_COPY + 0x4000 * ((x * 5 + y * 3 + 1) % 4)

    def finish(self, materialise=False):
        """Call after the topology/state has been configured."""
        if materialise:
            for ch in self.chips.values():
                if not ch.dead:
                    ch.sync_all()
        for ch in self.chips.values():
            if ch.ip and ch.eth_up and not ch.dead:
                self.net.register(ch.ip, 17893, self._endpoint(ch))
                self.endpoints[ch.ip] = ch

    def _endpoint(self, eth_chip):
        def handler(payload, reply, sock):
            self.handle(eth_chip, payload, reply)
        return handler

    # -- command handling ----------------------------------------------------
    def proto(self, msg, **sig):
        self.w.note_violation("PROTO", msg, **sig)

    def handle(self, eth_chip, payload, reply):
        w = self.w
        r = wire.parse_scp(payload)
        self.commands += 1
        if not self.booted:
            return
        if self.validate:
            if not r.wellformed:
                self.proto("malformed SCP datagram (%d bytes)" % len(payload),
                           kind="malformed")
            if r.flags != 0x87:
                self.proto("command sent without reply-expected flag",
                           kind="flags")
            if len(r.body) > 12 + self.buffer_size:
                self.proto("command %d carries %d data bytes; the machine "
                           "advertised a %d byte buffer"
                           % (r.cmd, len(r.body) - 12, self.buffer_size),
                           kind="oversize", cmd=r.cmd)
        # destination chip
        if (r.dest_x, r.dest_y) == (255, 255):
            chip = eth_chip
        else:
            chip = self.chips.get((r.dest_x, r.dest_y))
        w.trace.ev("cmd", r.cmd, r.dest_x, r.dest_y, r.dest_cpu, r.seq)
        if self.swallow is not None and self.swallow(chip, r):
            return          # (an engine's scripted request loss)
        if chip is None or chip.dead:
            reply(wire.build_reply(r, RC_ROUTE))
            return
        chip.arrivals.append((eth_chip.ip, r))
        if chip.unresponsive == "silent":
            return
        if chip.unresponsive == "p2p_timeout":
            reply(wire.build_reply(r, RC_P2P_TIMEOUT))
            return
        if r.dest_cpu >= len(chip.cores):
            reply(wire.build_reply(r, RC_CPU))
            return
        # machine-side faults: retryable code, command not executed
        pol = self.net.policy
        extra = 0.0
        if pol.busy and pol.active and self.machine_faults:
            now = w.sim.now
            if chip.busy_until is None:
                # the spell must be over before the earliest moment a
                # retransmission (sent one time-out after the first copy) can
                # arrive, whatever the latencies of the two copies were
                spell = pol.busy["len"] * max(
                    0.0, pol.timeout - pol.jitter - pol.base_latency)
                chip.busy_until = now + spell \
                    if self.tape.chance(pol.busy["p"]) else -1.0
            if now < chip.busy_until:
                w.fault("transient_busy")
                reply(wire.build_reply(r, RC_P2P_BUSY))
                return
        if self.machine_faults:
            pr = pol.rate("retryable_rc")
            if pr > 0 and self.tape.chance(pr):
                w.fault("retryable_rc")
                reply(wire.build_reply(r, (RC_SUM, RC_P2P_BUSY)
                                       [self.tape.draw(2)]))
                return
            pf = pol.rate("fatal_rc")
            if pf > 0 and self.tape.chance(pf):
                w.fault("fatal_rc")
                reply(wire.build_reply(r, FATAL_RCS[self.tape.draw(
                    len(FATAL_RCS))]))
                return
            ps = pol.rate("slow_machine")
            if ps > 0 and self.tape.chance(ps):
                w.fault("slow_machine")
                extra = pol.timeout * (1 + self.tape.draw(12)) / 8.0
        if self.on_command is not None:
            self.on_command(chip, r, eth_chip.ip)
        fn = _HANDLERS.get(r.cmd)
        if fn is None:
            reply(wire.build_reply(r, RC_CMD), extra)
            return
        out = fn(self, chip, r)
        if out is None:
            return
        rc, args, data = out
        reply(wire.build_reply(r, rc, args, data, src_xy=(chip.x, chip.y)),
              extra)

    # -- individual commands ---------------------------------------------
    def _sver(self, chip, r):
        pos = (chip.x << 8) | chip.y
        if self.w.sim.now < self.p2p_unknown_until:
            pos = 0xffff
        arg1 = (pos << 16) | \
            (((r.dest_cpu * 5 + 1) % 18) << 8) | r.dest_cpu
        name = "SC&MP/SpiNNaker" if r.dest_cpu == 0 else "SARK/SpiNNaker"
        if self.semver is None:
            ver = self.version[0] * 100 + self.version[1]
            data = name.encode() + b"\0"
        else:
            ver = 0xffff
            data = name.encode() + b"\0" + self.semver.encode() + b"\0"
        return RC_OK, [arg1, (ver << 16) | self.buffer_size, 1423145600], data

    def _check_access(self, what, addr, n, typ):
        if not self.validate:
            return
        if typ not in (0, 1, 2):
            self.proto("%s with unknown access type %r" % (what, typ),
                       kind="access-type")
        elif typ == 2 and (addr % 4 or n % 4):
            self.proto("%s of %d bytes at %#x uses word access"
                       % (what, n, addr), kind="access-type")
        elif typ == 1 and (addr % 2 or n % 2):
            self.proto("%s of %d bytes at %#x uses half-word access"
                       % (what, n, addr), kind="access-type")
        if n > self.buffer_size:
            self.proto("%s of %d bytes exceeds the advertised %d byte buffer"
                       % (what, n, self.buffer_size), kind="oversize")

    def _read(self, chip, r):
        addr, n, typ = r.arg(0), r.arg(1), r.arg(2)
        if addr is None or n is None or typ is None:
            return RC_LEN, [], b""
        self._check_access("read", addr, n, typ)
        chip.materialise(addr, n)
        self.w.trace.ev("m-read", chip.x, chip.y, r.dest_cpu, addr, n)
        return RC_OK, [], chip.mem.read(addr, n, r.dest_cpu)

    def _write(self, chip, r):
        addr, n, typ = r.arg(0), r.arg(1), r.arg(2)
        data = r.data(3)
        if addr is None or n is None or typ is None:
            return RC_LEN, [], b""
        self._check_access("write", addr, n, typ)
        chip.materialise(addr, n)
        if self.validate and n != len(data):
            self.proto("write announces %d bytes but carries %d"
                       % (n, len(data)), kind="write-length")
        self.w.trace.ev("m-write", chip.x, chip.y, r.dest_cpu, addr, n)
        chip.mem.write(addr, data[:n], r.dest_cpu)
        return RC_OK, [], b""

    def _fill(self, chip, r):
        addr, word, size = r.arg(0), r.arg(1), r.arg(2)
        if addr is None or word is None or size is None:
            return RC_LEN, [], b""
        if self.validate and (addr % 4 or size % 4):
            self.proto("fill of %d bytes at %#x is not word aligned"
                       % (size, addr), kind="fill-align")
        self.w.trace.ev("m-fill", chip.x, chip.y, r.dest_cpu, addr, size)
        chip.materialise(addr, size)
        chip.mem.write(addr, p32(word) * (size // 4), r.dest_cpu)
        return RC_OK, [], b""

    def _link_target(self, chip, link):
        if link is None or not 0 <= link < 6:
            return None
        if link not in chip.links_up:
            return None
        n = self.neighbour(chip.x, chip.y, link)
        if n is None or n.dead:
            return None
        return n

    def _link_read(self, chip, r):
        addr, n, link = r.arg(0), r.arg(1), r.arg(2)
        if addr is None or n is None or link is None:
            return RC_LEN, [], b""
        if self.validate and (addr % 4 or n % 4):
            self.proto("link read of %d bytes at %#x is not whole words"
                       % (n, addr), kind="link-align")
        if self.validate and n > self.buffer_size:
            self.proto("link read of %d bytes exceeds the advertised buffer"
                       % n, kind="oversize")
        t = self._link_target(chip, link)
        if t is None:
            return RC_TIMEOUT, [], b""
        t.materialise(addr, n)
        return RC_OK, [], t.mem.read(addr, n, 0)

    def _link_write(self, chip, r):
        addr, n, link = r.arg(0), r.arg(1), r.arg(2)
        data = r.data(3)
        if addr is None or n is None or link is None:
            return RC_LEN, [], b""
        if self.validate and (addr % 4 or n % 4 or n != len(data)):
            self.proto("link write of %d bytes (%d carried) at %#x is not "
                       "whole words" % (n, len(data), addr), kind="link-align")
        t = self._link_target(chip, link)
        if t is None:
            return RC_TIMEOUT, [], b""
        t.materialise(addr, n)
        t.mem.write(addr, data[:n], 0)
        return RC_OK, [], b""

    def _led(self, chip, r):
        a = r.arg(0) or 0
        for led in range(16):
            act = (a >> (2 * led)) & 3
            if act == 3:
                chip.leds[led] = True
            elif act == 2:
                chip.leds[led] = False
            elif act == 1:
                chip.leds[led] = not chip.leds.get(led, False)
        return RC_OK, [], b""

    def _iptag(self, chip, r):
        a1 = r.arg(0) or 0
        op, tag = a1 >> 16, a1 & 0xffff
        if op == 1:
            chip.iptags[tag] = (r.arg(2) or 0, r.arg(1) or 0)
            return RC_OK, [], b""
        if op == 3:
            chip.iptags.pop(tag, None)
            return RC_OK, [], b""
        if op == 2:
            ip, port = chip.iptags.get(tag, (0, 0))
            rec = (p32(ip) + b"\x01\x02\x03\x04\x05\x06" + p16(port) +
                   p16(9) + p16(0x8000 if tag in chip.iptags else 0) +
                   p32(3) + p16(0) + p16(0) + bytes([0]))
            return RC_OK, [], rec
        return RC_ARG, [], b""

    def _alloc_free(self, chip, r):
        a1 = r.arg(0) or 0
        op, app = a1 & 0xff, (a1 >> 8) & 0xff
        if op == 0:
            size, tag = r.arg(1) or 0, r.arg(2) or 0
            if self.alloc_fail_hook is not None and \
                    self.alloc_fail_hook(chip, "sdram", size):
                return RC_OK, [0], b""
            if tag:
                if not 0 < tag < 256:
                    return RC_OK, [0], b""
                if (app, tag) in chip.tags:
                    return RC_OK, [0], b""
            ptr = chip.sdram.alloc(size, app, tag)
            if ptr and tag:
                chip.tags[(app, tag)] = ptr
                chip.mem.w32(ALLOC_TAG + 4 * ((app << 8) + tag), ptr)
            self.w.trace.ev("m-alloc", chip.x, chip.y, size, app, tag, ptr)
            return RC_OK, [ptr], b""
        if op == 1:
            ptr = r.arg(1) or 0
            b = chip.sdram.find(ptr)
            if b is not None and b[3]:
                chip.tags.pop((b[2], b[3]), None)
                chip.mem.w32(ALLOC_TAG + 4 * ((b[2] << 8) + b[3]), 0)
            ok = chip.sdram.free_ptr(ptr)
            self.w.trace.ev("m-free", chip.x, chip.y, ptr, ok)
            return RC_OK, [1 if ok else 0], b""
        if op == 3:
            count = r.arg(1) or 0
            if self.alloc_fail_hook is not None and \
                    self.alloc_fail_hook(chip, "rtr", count):
                return RC_OK, [0], b""
            first = chip.rtr_alloc(count, app)
            self.w.trace.ev("m-rtr-alloc", chip.x, chip.y, count, app, first)
            return RC_OK, [first], b""
        if op == 5:
            chip.rtr_free_app(app, clear=bool(r.arg(1)))
            return RC_OK, [1], b""
        return RC_ARG, [], b""

    def _router(self, chip, r):
        a1 = r.arg(0) or 0
        op = a1 & 0xff
        if op == 2:
            count, app = a1 >> 16, (a1 >> 8) & 0xff
            addr, base = r.arg(1) or 0, r.arg(2) or 0
            blk = None
            for first, cnt, a in chip.rtr_blocks:
                if first <= base and base + count <= first + cnt and a == app:
                    blk = (first, cnt, a)
            if self.validate and count and blk is None:
                self.proto("router load of %d entries at %d for app %d is not "
                           "inside a block allocated to that application"
                           % (count, base, app), kind="rtr-load-range")
            chip.materialise(addr, 16 * count)
            raw = chip.mem.read(addr, 16 * count, 0)
            for i in range(count):
                o = 16 * i
                idx = wire.u16(raw, o)
                route, key, mask = u32(raw, o + 4), u32(raw, o + 8), \
                    u32(raw, o + 12)
                pos = base + idx
                if 0 < pos < N_RTR:
                    chip.router[pos] = RouterEntry(key, mask, route, app)
                    chip.sync_router_entry(pos)
            self.w.trace.ev("m-rtr-load", chip.x, chip.y, count, app, base)
            return RC_OK, [], b""
        if op in (0, 1):
            for i in range(N_RTR):
                if chip.router[i] is not None:
                    chip.router[i] = None
                    chip.sync_router_entry(i)
            chip.rtr_blocks = []
            return RC_OK, [], b""
        return RC_ARG, [], b""

    def _info(self, chip, r):
        n = len(chip.cores)
        links = 0
        for l in chip.working_links():
            links |= 1 << l
        a1 = (n & 0x1f) | (links << 8) | \
            ((chip.rtr_largest_free() & 0x7ff) << 14) | \
            ((1 if chip.eth_up else 0) << 25)
        states = bytes([c.state for c in chip.cores] +
                       [ST_DEAD] * (18 - n))
        ip = 0
        if chip.ip:
            q = [int(v) for v in chip.ip.split(".")]
            ip = q[0] | q[1] << 8 | q[2] << 16 | q[3] << 24
        data = states + p16((chip.local_eth[0] << 8) | chip.local_eth[1]) + \
            p32(ip)
        return RC_OK, [a1, chip.sdram.largest_free(),
                       chip.sysram.largest_free()], data

    # -- signals -------------------------------------------------------------
    def _signal(self, chip, r):
        typ, a2, a3 = r.arg(0), r.arg(1) or 0, r.arg(2) or 0
        if typ == 1:
            # diagnostic (count / AND / OR) over the whole machine
            op = (a2 >> 20) & 3
            state = (a2 >> 16) & 0xf
            app_mask = (a2 >> 8) & 0xff
            app = a2 & 0xff
            n = 0
            total = 0
            for ch in self.live_chips():
                if ch.unresponsive:
                    continue
                for c in ch.cores[1:]:
                    if (c.app_id & app_mask) == (app & app_mask) and \
                            c.state != ST_IDLE:
                        total += 1
                        if c.state == state:
                            n += 1
            if op == 2:
                if self.on_count is not None:
                    self.on_count(app, state, n)
                return RC_OK, [n], b""
            if op == 1:
                return RC_OK, [1 if (total and n == total) else 0], b""
            return RC_OK, [1 if n else 0], b""
        sig = (a2 >> 16) & 0xff
        app_mask = (a2 >> 8) & 0xff
        app = a2 & 0xff
        self.w.trace.ev("m-signal", sig, app)
        self.signals_seen.append((sig, app, typ))
        for ch in self.live_chips():
            if ch.unresponsive:
                continue
            self.apply_signal(ch, sig, app, app_mask)
        return RC_OK, [], b""

    def apply_signal(self, ch, sig, app, app_mask=0xff):
        touched = False
        for p, c in enumerate(ch.cores):
            if p == 0 or c.state == ST_IDLE:
                continue
            if (c.app_id & app_mask) != (app & app_mask):
                continue
            new = None
            if sig == SIG_STOP:
                new = ST_IDLE
            elif sig == SIG_START and c.state == ST_WAIT:
                new = ST_RUN
            elif sig == SIG_SYNC0 and c.state == ST_SYNC0:
                new = ST_RUN
            elif sig == SIG_SYNC1 and c.state == ST_SYNC1:
                new = ST_RUN
            elif sig == SIG_PAUSE and c.state == ST_RUN:
                new = ST_PAUSE
            elif sig == SIG_CONT and c.state == ST_PAUSE:
                new = ST_RUN
            elif sig == SIG_EXIT:
                new = ST_EXIT
            elif sig == SIG_PWRDN:
                new = ST_PWRDN
            if new is not None:
                c.state = new
                if new == ST_IDLE:
                    c.app_id = 0
                    c.image = None
                    c.name = ""
                ch.sync_vcpu(p)
                touched = True
        if sig == SIG_STOP:
            for b in ch.sdram.free_app(app):
                if b[3]:
                    ch.tags.pop((b[2], b[3]), None)
                    ch.mem.w32(ALLOC_TAG + 4 * ((b[2] << 8) + b[3]), 0)
            ch.rtr_free_app(app, clear=True)
        return touched

    # -- flood fill ----------------------------------------------------------
    @staticmethod
    def region_selects(region, x, y):
        """Documented meaning of a region word: x/y base in bits 31:24 /
        23:18(+), level in 17:16, 16 sub-block select bits."""
        level = (region >> 16) & 3
        shift = 6 - 2 * level
        mask = (0xff << (shift + 2)) & 0xff
        bx = (region >> 24) & 0xff
        by = (region >> 16) & 0xfc
        if (x & mask) != (bx & mask) or (y & mask) != (by & mask):
            return False
        bit = ((x >> shift) & 3) + 4 * ((y >> shift) & 3)
        return bool(region & (1 << bit))

    def _nn(self, chip, r):
        a1, a2 = r.arg(0) or 0, r.arg(1) or 0
        cmd = a1 >> 24
        self.ff_log.append(("nn", cmd, a1, a2, r.arg(2)))
        for ch in self.live_chips():
            if ch.unresponsive:
                continue
            if cmd == 6:
                if self.ff_miss and self.ff_miss(ch, "start"):
                    continue
                ch.ff = {"id": (a1 >> 16) & 0xff, "blocks": (a1 >> 8) & 0xff,
                         "data": {}, "mask": 0}
            elif cmd == 7:
                if ch.ff is None:
                    continue
                if self.region_selects(a2, ch.x, ch.y):
                    ch.ff["mask"] |= a1 & 0x3ffff
            elif cmd == 15:
                if self.ff_miss and self.ff_miss(ch, "end"):
                    ch.ff = None
                    continue
                ff = ch.ff
                ch.ff = None
                if ff is None or ff["id"] != (a1 & 0xff):
                    continue
                if sorted(ff["data"]) != list(range(ff["blocks"])):
                    continue
                if not ff["mask"]:
                    continue
                image = b"".join(ff["data"][i] for i in range(ff["blocks"]))
                app = (a2 >> 24) & 0xff
                flags = (a2 >> 18) & 0x3f
                for p in range(1, len(ch.cores)):
                    if ff["mask"] & (1 << p):
                        self.start_core(ch, p, image, app, bool(flags & 1),
                                        ff["id"])
                if ff["mask"] & 1 or ff["mask"] >> len(ch.cores):
                    self.ff_bad_cores.append((ch.x, ch.y, ff["mask"]))
        return RC_OK, [], b""

    def start_core(self, ch, p, image, app, wait, load_id):
        c = ch.cores[p]
        c.image = image
        c.app_id = app
        c.loads += 1
        c.load_id = load_id
        c.name = "app%02x" % (sum(image[:64]) & 0xff)
        final = ST_WAIT if wait else ST_RUN
        if self.app_start_latency > 0:
            c.state = ST_INIT
            ch.sync_vcpu(p)
            loads = c.loads

            def ready():
                if c.loads == loads and c.state == ST_INIT:
                    c.state = final
                    ch.sync_vcpu(p)
            self.w.sim.after(self.app_start_latency, ready)
        else:
            c.state = final
            ch.sync_vcpu(p)

    def _ffd(self, chip, r):
        a1, a2, addr = r.arg(0) or 0, r.arg(1) or 0, r.arg(2) or 0
        data = r.data(3)
        fid = a1 & 0xff
        block = (a2 >> 16) & 0xff
        words = ((a2 >> 8) & 0xff) + 1
        self.ff_log.append(("ffd", fid, block, words, addr, data))
        for ch in self.live_chips():
            if ch.unresponsive:
                continue
            if ch.ff is None or ch.ff["id"] != fid:
                continue
            if self.ff_miss and self.ff_miss(ch, "block"):
                continue
            ch.ff["data"][block] = data[:4 * words]
        return RC_OK, [], b""


_HANDLERS = {
    0: SimMachine._sver, 2: SimMachine._read, 3: SimMachine._write,
    5: SimMachine._fill, 17: SimMachine._link_read, 18: SimMachine._link_write,
    20: SimMachine._nn, 22: SimMachine._signal, 23: SimMachine._ffd,
    25: SimMachine._led, 26: SimMachine._iptag, 28: SimMachine._alloc_free,
    29: SimMachine._router, 31: SimMachine._info,
}
