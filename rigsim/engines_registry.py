"""Property -> engine mapping."""
import importlib
import os
import sys

VERIF = os.path.dirname(os.path.dirname(os.path.abspath(__file__)))

PROPERTY_ENGINE = {
    "C06": "scp",
    "C07": "mem",
    "C13": "memio",
    "C10": "rtr",
    "C14": "probe",
    "C09": "load",
    "C18": "ctx",
    "C20": "boot",
    "C01": "deploy",
    "C03": "deploy",
    "C02": "place",
    "C08": "bitfield",
    "C17": "history",
}

_cache = {}


def get(name):
    if name not in _cache:
        if VERIF not in sys.path:
            sys.path.insert(1, VERIF)
        _cache[name] = importlib.import_module("engines." + name)
    return _cache[name]
