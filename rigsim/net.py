"""Simulated UDP network + the socket / select / time seams rig is given.

rig is synchronous, so control is inverted: rig calls ``send`` and the network
schedules (or drops, duplicates, delays) delivery events; rig calls ``select``
or ``sleep`` and the simulator runs events up to the wake-up condition.
"""
import collections

from .core import SimAbort  # noqa: F401  (re-exported for engines)

# ---------------------------------------------------------------------------
# Fault policy
# ---------------------------------------------------------------------------

ALL_NET_KINDS = ("req_loss", "rep_loss", "rep_delay", "rep_dup",
                 "req_delay", "req_dup", "rep_batch")
CLOCK_KINDS = ("host_stall", "clock_jump_fwd", "clock_jump_back",
               "spurious_wakeup", "slow_iterable", "slow_callback")
MACHINE_KINDS = ("retryable_rc", "fatal_rc", "slow_machine")


class FaultPolicy(object):
    """Per-run fault rates (swarm: drawn per run from the tape).

    ``rates`` maps kind -> probability per datagram (or per transmission for
    the clock kinds).  ``active`` is switched off by heal()."""

    def __init__(self, rates=None, timeout=0.5, base_latency=0.0005,
                 jitter=0.0005, fifo_requests=False):
        self.rates = dict(rates or {})
        self.timeout = timeout
        self.base_latency = base_latency
        self.jitter = jitter
        # fifo_requests: requests reach the machine in the order sent (constant
        # latency), so that no stale copy of a request can execute after a
        # later request - see DESIGN.md section 7 items 1 and 13
        self.fifo_requests = fifo_requests
        self.partitions = []       # [(start, end)] in virtual time
        self.busy = None           # {"p":, "len":} transient-busy-only mode
        self.active = True

    @classmethod
    def draw(cls, tape, allowed, timeout, fault_free_one_in=4,
             fifo_requests=False):
        """Swarm configuration: a random subset of the allowed kinds, each
        with its own rate; one configuration in ``fault_free_one_in`` has no
        faults at all."""
        rates = {}
        # 0 = fault free (benign first)
        mode = tape.weighted([1, 2 * (fault_free_one_in - 1) - 1, 1,
                              1 if "transient_busy" in allowed else 0]) \
            if fault_free_one_in > 1 else 1
        # mode 0: none; 1: light (0-15 %); 2: heavy (30-60 %); 3: the only
        # fault is chips that answer "busy" for a while (shorter than one
        # time-out) when first addressed - everything must still succeed,
        # because a busy command is retried once its time-out has elapsed
        busy = None
        if mode == 3:
            busy = {"p": [0.2, 0.5, 1.0][tape.draw(3)],
                    "len": [0.2, 0.5, 0.9][tape.draw(3)]}
        if mode in (1, 2):
            for kind in allowed:
                if kind in ("partition", "transient_busy"):
                    continue
                if tape.chance(0.55):
                    if mode == 1:
                        rates[kind] = tape.rng_range(1, 15) / 100.0
                    else:
                        rates[kind] = tape.rng_range(30, 60) / 100.0
            # clock and machine kinds fire per transmission: keep them rarer
            for kind in CLOCK_KINDS + ("fatal_rc",):
                if kind in rates:
                    rates[kind] = min(rates[kind], 0.05) / 2.0
        jitter = tape.choice([0.0, 0.0005, 0.005])
        pol = cls(rates, timeout=timeout, jitter=jitter,
                  fifo_requests=fifo_requests)
        pol.busy = busy
        # partitions: intervals of virtual time during which every datagram
        # in either direction is lost, then the link heals by itself
        if mode in (1, 2) and "partition" in allowed and tape.chance(0.3):
            t0 = 0.0
            for _ in range(1 + tape.draw(2)):
                t0 += timeout * (1 + tape.draw(40)) / 4.0
                length = timeout * (1 + tape.draw(24)) / 4.0
                pol.partitions.append((t0, t0 + length))
                t0 += length
        return pol

    def rate(self, kind):
        return self.rates.get(kind, 0.0) if self.active else 0.0

    def any_net(self):
        return self.active and (bool(self.partitions) or any(
            self.rates.get(k, 0) > 0 for k in ALL_NET_KINDS))

    def describe(self):
        d = {k: round(v, 3) for k, v in sorted(self.rates.items())}
        if self.partitions:
            d["partitions"] = [(round(a, 3), round(b, 3))
                               for a, b in self.partitions]
        if self.busy:
            d["transient_busy"] = self.busy
        return d

    def partitioned(self, now):
        if not self.active:
            return False
        for a, b in self.partitions:
            if a <= now < b:
                return True
        return False

    # -- per-datagram fates ------------------------------------------------
    def _latency(self, tape):
        if self.jitter > 0:
            return self.base_latency + self.jitter * tape.draw(8) / 8.0
        return self.base_latency

    def _extra_delay(self, tape):
        """Extra delay with mass below one time-out, around it, and at
        several time-outs (bounded: datagram lifetime < 5 time-outs)."""
        cls = tape.weighted([3, 3, 2])
        f = (1 + tape.draw(8)) / 8.0
        T = self.timeout
        if cls == 0:
            return 0.6 * T * f
        if cls == 1:
            return T * (0.85 + 0.3 * f)
        return T * (1.2 + 3.3 * f)

    def request_fate(self, tape, world):
        """-> list of delivery delays (empty = lost)."""
        lat = self.base_latency if self.fifo_requests else self._latency(tape)
        pl, pd, pu = (self.rate("req_loss"), self.rate("req_delay"),
                      self.rate("req_dup"))
        if pl + pd + pu <= 0:
            return [lat]
        k = tape.weighted([max(0.0, 1 - pl - pd - pu), pl, pd, pu])
        if k == 0:
            return [lat]
        if k == 1:
            world.fault("req_loss")
            return []
        if k == 2:
            world.fault("req_delay")
            return [lat + self._extra_delay(tape)]
        world.fault("req_dup")
        return [lat, lat + self._extra_delay(tape)]

    def reply_fate(self, tape, world):
        lat = self._latency(tape)
        pl, pd, pu = (self.rate("rep_loss"), self.rate("rep_delay"),
                      self.rate("rep_dup"))
        if pl + pd + pu <= 0:
            return [lat]
        k = tape.weighted([max(0.0, 1 - pl - pd - pu), pl, pd, pu])
        if k == 0:
            return [lat]
        if k == 1:
            world.fault("rep_loss")
            return []
        if k == 2:
            world.fault("rep_delay")
            return [lat + self._extra_delay(tape)]
        world.fault("rep_dup")
        return [lat, lat + self._extra_delay(tape) * tape.draw(2)]

    def clock_fault(self, tape, world, sim):
        ps, pf, pb = (self.rate("host_stall"), self.rate("clock_jump_fwd"),
                      self.rate("clock_jump_back"))
        if ps + pf + pb <= 0:
            return
        k = tape.weighted([max(0.0, 1 - ps - pf - pb), ps, pf, pb])
        if k == 0:
            return
        amount = (1 + tape.draw(10)) / 10.0
        if k == 1:
            world.fault("host_stall")
            d = 0.01 + 0.99 * amount * min(1.0, 2 * self.timeout)
            sim.trace.ev("stall", d)
            sim.now += d          # events that fell due run at next select
        elif k == 2:
            world.fault("clock_jump_fwd")
            d = amount * 3 * self.timeout
            sim.trace.ev("jump+", d)
            sim.host_offset += d
        else:
            world.fault("clock_jump_back")
            d = amount * 0.5 * self.timeout
            sim.trace.ev("jump-", d)
            sim.host_offset -= d


# ---------------------------------------------------------------------------
# Network
# ---------------------------------------------------------------------------

class SimNetwork(object):
    def __init__(self, world, policy=None):
        self.world = world
        self.sim = world.sim
        self.tape = world.tape
        self.policy = policy or FaultPolicy()
        self.endpoints = {}     # (ip, port) -> handler(payload, reply, src)
        self.hosts = {}         # hostname -> ip
        self.sockets = []
        self._next_port = 40000
        self.on_tx = None       # monitor hook: (sock, payload)
        self.send_fail_hook = None   # fault hook: (sock, payload) -> bool
        self.on_rx = None       # monitor hook: (sock, payload) at recv()
        self.tx_count = 0
        self.rx_count = 0

    def heal(self):
        self.policy.active = False
        self.sim.trace.ev("heal")

    def resolve(self, host):
        if host in self.hosts:
            return self.hosts[host]
        parts = host.split(".")
        if len(parts) == 4 and all(p.isdigit() for p in parts):
            return host
        raise OSError("simulated DNS: unknown host %r" % (host,))

    def register(self, ip, port, handler):
        self.endpoints[(ip, port)] = handler

    # -- transmission ------------------------------------------------------
    def transmit(self, sock, payload):
        self.tx_count += 1
        if self.on_tx is not None:
            self.on_tx(sock, payload)
        if self.policy.partitioned(self.sim.now):
            self.world.fault("partition_drop")
            self.policy.clock_fault(self.tape, self.world, self.sim)
            return
        for delay in self.policy.request_fate(self.tape, self.world):
            self.sim.after(delay, self._deliver_request, sock, payload)
        self.policy.clock_fault(self.tape, self.world, self.sim)

    def _deliver_request(self, sock, payload):
        handler = self.endpoints.get(sock.peer)
        if handler is None:
            return
        handler(payload, lambda data, extra=0.0: self._send_reply(sock, data,
                                                                  extra), sock)

    def _send_reply(self, sock, data, extra=0.0):
        if self.policy.partitioned(self.sim.now):
            self.world.fault("partition_drop")
            return
        for delay in self.policy.reply_fate(self.tape, self.world):
            pb = self.policy.rate("rep_batch")
            if pb > 0 and self.tape.chance(pb):
                # receive-side batching (interrupt coalescing, a busy host):
                # the datagram sits in a queue the application cannot see yet
                # and becomes readable together with the next datagram for
                # that socket, or after a hold time well below one time-out
                self.sim.after(delay + extra, sock._arrive_held, data,
                               0.3 * self.policy.timeout *
                               (1 + self.tape.draw(4)) / 4.0)
            else:
                self.sim.after(delay + extra, sock._arrive, data)


class SimSocket(object):
    def __init__(self, net):
        self.net = net
        self.peer = None
        self.closed = False
        self.blocking = True
        self.inbox = collections.deque()
        self.held = []          # arrived, not yet readable (rep_batch)
        net._next_port += 1
        self.port = net._next_port
        self.sent = 0
        net.sockets.append(self)

    def connect(self, addr):
        host, port = addr
        pc = self.net.policy.rate("slow_connect")
        if pc > 0 and self.net.tape.chance(pc):
            # resolving the name takes its time
            self.net.world.fault("slow_connect")
            d = 0.3 + self.net.tape.draw(30) / 10.0
            self.net.sim.trace.ev("slow-connect", d)
            self.net.sim.now += d
        self.peer = (self.net.resolve(host), port)

    def setblocking(self, flag):
        self.blocking = bool(flag)

    def settimeout(self, t):
        self.blocking = t is None

    def send(self, data):
        self.net.sim.seam()
        if self.closed:
            raise OSError(9, "Bad file descriptor (simulated)")
        # the argument checks of a real datagram socket
        if isinstance(data, str) or not isinstance(
                data, (bytes, bytearray, memoryview)):
            try:
                data = memoryview(data).tobytes()
            except TypeError:
                raise TypeError("a bytes-like object is required, not %r"
                                % type(data).__name__)
        if len(data) > 65507:
            raise OSError(90, "Message too long (simulated)")
        self.sent += 1
        hook = self.net.send_fail_hook
        if hook is not None and hook(self, bytes(data)):
            # e.g. a pending ICMP error on a connected UDP socket: nothing
            # leaves the host
            self.net.world.fault("send_error")
            raise ConnectionRefusedError(111, "Connection refused (simulated)")
        self.net.transmit(self, bytes(data))
        return len(data)

    def _arrive(self, data):
        if not self.closed:
            if self.held:
                self.net.world.fault("rep_batch")
                self.inbox.extend(self.held)
                del self.held[:]
            self.inbox.append(data)

    def _arrive_held(self, data, hold):
        if self.closed:
            return
        if self.held:
            self._arrive(data)
            return
        self.held.append(data)
        self.net.sim.trace.ev("held", len(data))
        self.net.sim.after(hold, self._release)

    def _release(self):
        if self.held and not self.closed:
            self.inbox.extend(self.held)
        del self.held[:]

    def recv(self, n):
        self.net.sim.seam()
        if self.closed:
            raise OSError(9, "Bad file descriptor (simulated)")
        if isinstance(n, float) or not hasattr(n, "__index__"):
            raise TypeError("%r object cannot be interpreted as an integer"
                            % type(n).__name__)
        n = n.__index__()
        if n < 0:
            raise ValueError("negative buffersize in recv")
        if not self.inbox:
            if self.blocking:
                # rig never does a blocking recv on an empty socket; model it
                # as an immediate error rather than hanging the simulation.
                raise SimAbort("BLOCKING-RECV", "blocking recv on empty "
                               "simulated socket")
            raise BlockingIOError(11, "Resource temporarily unavailable")
        data = self.inbox.popleft()
        self.net.rx_count += 1
        out = data[:n]      # UDP: excess bytes of a datagram are discarded
        if self.net.on_rx is not None:
            self.net.on_rx(self, data, out)
        return out

    def close(self):
        self.closed = True
        self.inbox.clear()
        del self.held[:]

    def fileno(self):
        return self.port


class SimSocketModule(object):
    """Stands in for the ``socket`` module inside rig modules."""
    AF_INET = 2
    SOCK_DGRAM = 2
    error = OSError
    timeout = OSError

    def __init__(self, net):
        self._net = net

    def socket(self, family=2, type=2, proto=0):
        assert family == self.AF_INET and type == self.SOCK_DGRAM
        return SimSocket(self._net)

    def gethostbyname(self, host):
        return self._net.resolve(host)


class SimSelectModule(object):
    error = OSError

    def __init__(self, net):
        self._net = net

    def select(self, rlist, wlist, xlist, timeout=None):
        sim = self._net.sim
        sim.seam()
        socks = list(rlist)
        if timeout is None:
            timeout = 3600.0
        else:
            # the argument checks of the real select()
            if isinstance(timeout, (str, bytes)) or not isinstance(
                    timeout, (int, float)) and not hasattr(timeout,
                                                           "__float__"):
                raise TypeError("timeout must be a float or None")
            timeout = float(timeout)
            if timeout != timeout:
                raise ValueError("Invalid value NaN (not a number)")
            if timeout < 0:
                raise ValueError("timeout must be non-negative")
        for s_ in socks:
            if getattr(s_, "closed", False):
                raise ValueError("file descriptor cannot be a negative "
                                 "integer (-1)")

        def ready():
            return any(s.inbox for s in socks)
        sim.run_due()
        pw = self._net.policy.rate("spurious_wakeup")
        if pw > 0 and socks and not ready() and self._net.tape.chance(pw):
            # select() may report a socket readable although the following
            # recv() finds nothing (e.g. a datagram discarded for a bad
            # checksum): return early - somewhere inside the time asked for -
            # with the socket listed
            self._net.world.fault("spurious_wakeup")
            sim.run_until(sim.now + max(0.0, timeout) *
                          self._net.tape.draw(4) / 4.0, ready)
            sim.trace.ev("spurious-wakeup")
            self._net.world.check_pending()
            return list(socks), [], []
        sim.run_until(sim.now + max(0.0, timeout), ready)
        self._net.world.check_pending()
        return [s for s in socks if s.inbox], [], []


class SimTimeModule(object):
    """Stands in for the ``time`` module.  ``time()`` advances the clock by a
    tick (models CPU progress) so that no loop can spin at a frozen instant."""

    def __init__(self, net):
        self._net = net

    def time(self):
        sim = self._net.sim
        sim.seam()
        sim.now += sim.TICK
        return sim.host_now

    def sleep(self, d):
        sim = self._net.sim
        sim.seam()
        if isinstance(d, (str, bytes)) or not hasattr(d, "__float__") \
                and not hasattr(d, "__index__"):
            raise TypeError("%r object cannot be interpreted as an integer"
                            % type(d).__name__)
        if d < 0:
            raise ValueError("sleep length must be non-negative")
        sim.trace.ev("sleep", float(d))
        po = self._net.policy.rate("sleep_overshoot")
        if po > 0 and self._net.tape.chance(po):
            # a sleep lasts at least as long as asked, never exactly
            self._net.world.fault("sleep_overshoot")
            d = d * (1.0 + (1 + self._net.tape.draw(8)) / 4.0) + 0.001
        sim.run_until(sim.now + max(0.0, d))
        self._net.world.check_pending()

    def monotonic(self):
        # its own epoch, untouched by jumps of the wall clock: a deadline
        # computed on one clock and compared on the other never works
        sim = self._net.sim
        sim.seam()
        sim.now += sim.TICK
        return 4242.0 + sim.now

    perf_counter = monotonic

    def time_ns(self):
        return int(self.time() * 1e9)

    def monotonic_ns(self):
        return int(self.monotonic() * 1e9)
