"""Multicast packet execution on the simulated machine's routers.

A router does first-match over its installed entries in index order, otherwise
default-routes a packet that arrived on a link straight through, otherwise
drops it; a dead link or chip loses the packet; a hop budget and a
(chip, arrival link) visit set detect circulation; deliveries are tallied per
(chip, core) and per endpoint link.
"""
from .machine import LINK_VEC, N_RTR


class PacketResult(object):
    def __init__(self):
        self.deliveries = []      # (x, y, core)
        self.exits = []           # (x, y, link) endpoint exits
        self.drops = []           # (x, y, reason)
        self.absorbed = []        # (x, y): matched an entry with empty route
        self.dead_hops = []       # (x, y, link, why)
        self.circulated = False
        self.hops = 0
        self.default_routed = 0
        self.path = []


def inject(machine, src_xy, key, endpoints=(), max_hops=5000):
    """Inject one multicast packet with ``key`` at ``src_xy`` (from a local
    core).  ``endpoints``: set of (x, y, link) at which a packet leaving on
    that link has reached an external device."""
    res = PacketResult()
    endpoints = set(endpoints)
    queue = [(src_xy, None)]
    visited = set()
    while queue:
        xy, arrived_on = queue.pop()
        res.hops += 1
        if res.hops > max_hops:
            res.circulated = True
            break
        if (xy, arrived_on) in visited:
            res.circulated = True
            continue
        visited.add((xy, arrived_on))
        chip = machine.chips.get(xy)
        if chip is None or chip.dead:
            res.dead_hops.append((xy[0], xy[1], arrived_on, "dead chip"))
            continue
        res.path.append((xy, arrived_on))
        match = None
        for i in range(N_RTR):
            e = chip.router[i]
            if e is not None and (key & e.mask) == e.key:
                match = e
                break
        if match is None:
            if arrived_on is None:
                res.drops.append((xy[0], xy[1], "no entry at the source"))
                continue
            out_links = [(arrived_on + 3) % 6]
            res.default_routed += 1
            cores = []
        else:
            route = match.route & 0xffffff
            out_links = [l for l in range(6) if route & (1 << l)]
            cores = [c for c in range(18) if route & (1 << (6 + c))]
            if not route:
                res.absorbed.append(xy)
        for c in cores:
            res.deliveries.append((xy[0], xy[1], c))
        for l in out_links:
            if (xy[0], xy[1], l) in endpoints:
                res.exits.append((xy[0], xy[1], l))
                continue
            if l not in chip.links_up:
                res.dead_hops.append((xy[0], xy[1], l, "dead link"))
                continue
            n = machine.neighbour(xy[0], xy[1], l)
            if n is None:
                res.dead_hops.append((xy[0], xy[1], l, "no chip beyond"))
                continue
            if n.dead:
                res.dead_hops.append((xy[0], xy[1], l, "into dead chip"))
                continue
            queue.append(((n.x, n.y), (l + 3) % 6))
    return res
